package sctp

import (
	"errors"
	"fmt"
	"io"
	"sort"
)

func init() { register("C11", propC11) }

// ---------------------------------------------------------------------------------
// reference model of per-stream reassembly (boring: maps and lists)

type rqChunk struct {
	idata bool
	u     bool
	seq   uint32 // SSN (16 bit) or MID
	fsn   uint32
	tsn   uint32
	b, e  bool
	data  string
}

type rqModel struct {
	idata    bool
	next     uint32 // nextSSN / nextMID
	ordered  map[uint32][]rqChunk
	unordC   []rqChunk            // DATA: unordered chunks not yet part of a complete message
	unordM   map[uint32][]rqChunk // I-DATA: incomplete unordered sets by MID
	ready    [][]rqChunk          // complete unordered messages in completion order
	readyMID map[uint32]bool
	// I-DATA: highest unordered MID announced as skipped; a fragment of that message (or of an
	// earlier one) arriving afterwards belongs to nothing that will ever be completed
	skippedU     uint32
	haveSkippedU bool
}

func newRQModel(idata bool, base uint32) *rqModel {
	return &rqModel{idata: idata, next: base, ordered: map[uint32][]rqChunk{}, unordM: map[uint32][]rqChunk{}, readyMID: map[uint32]bool{}}
}

func (m *rqModel) lt(a, b uint32) bool {
	if m.idata {
		return sna32lt(a, b)
	}
	return a != b && int16(uint16(b)-uint16(a)) > 0
}

func (m *rqModel) bytes() int {
	n := 0
	for _, s := range m.ordered {
		for _, c := range s {
			n += len(c.data)
		}
	}
	for _, c := range m.unordC {
		n += len(c.data)
	}
	for _, s := range m.unordM {
		for _, c := range s {
			n += len(c.data)
		}
	}
	for _, s := range m.ready {
		for _, c := range s {
			n += len(c.data)
		}
	}
	return n
}

func completeByTSN(s []rqChunk) bool {
	if len(s) == 0 || !s[0].b || !s[len(s)-1].e {
		return false
	}
	for i := 1; i < len(s); i++ {
		if s[i].tsn != s[i-1].tsn+1 {
			return false
		}
	}
	return true
}

func completeByFSN(s []rqChunk) bool {
	if len(s) == 0 || !s[0].b || !s[len(s)-1].e || s[0].fsn != 0 {
		return false
	}
	for i := 1; i < len(s); i++ {
		if s[i].fsn != s[i-1].fsn+1 {
			return false
		}
	}
	return true
}

func (m *rqModel) push(c rqChunk) {
	if c.u {
		if !m.idata {
			m.unordC = append(m.unordC, c)
			sort.SliceStable(m.unordC, func(i, j int) bool { return sna32lt(m.unordC[i].tsn, m.unordC[j].tsn) })
			// first complete run in TSN order
			start := -1
			for i, x := range m.unordC {
				if x.b {
					start = i
					if x.e {
						m.take(start, i)
						return
					}
					continue
				}
				if start < 0 {
					continue
				}
				if x.tsn != m.unordC[i-1].tsn+1 {
					start = -1
					continue
				}
				if x.e {
					m.take(start, i)
					return
				}
			}
			return
		}
		if m.haveSkippedU && (c.seq == m.skippedU || sna32lt(c.seq, m.skippedU)) {
			return
		}
		if m.readyMID[c.seq] {
			return
		}
		s := m.unordM[c.seq]
		for _, x := range s {
			if x.fsn == c.fsn {
				return
			}
		}
		s = append(s, c)
		sort.SliceStable(s, func(i, j int) bool { return s[i].fsn < s[j].fsn })
		if completeByFSN(s) {
			delete(m.unordM, c.seq)
			m.ready = append(m.ready, s)
			m.readyMID[c.seq] = true
			return
		}
		m.unordM[c.seq] = s
		return
	}
	if m.lt(c.seq, m.next) {
		return
	}
	s := m.ordered[c.seq]
	if m.idata {
		if completeByFSN(s) {
			return
		}
		for _, x := range s {
			if x.fsn == c.fsn {
				return
			}
		}
		s = append(s, c)
		sort.SliceStable(s, func(i, j int) bool { return s[i].fsn < s[j].fsn })
	} else {
		if completeByTSN(s) {
			return // a message received completely takes nothing more (a stray fragment is dropped)
		}
		for _, x := range s {
			if x.tsn == c.tsn {
				return
			}
		}
		s = append(s, c)
		sort.SliceStable(s, func(i, j int) bool { return sna32lt(s[i].tsn, s[j].tsn) })
	}
	m.ordered[c.seq] = s
}

func (m *rqModel) take(lo, hi int) {
	msg := append([]rqChunk(nil), m.unordC[lo:hi+1]...)
	m.unordC = append(m.unordC[:lo], m.unordC[hi+1:]...)
	m.ready = append(m.ready, msg)
}

// read returns the next deliverable message (nil: try again).
func (m *rqModel) peek() ([]rqChunk, bool, uint32) {
	if len(m.ready) > 0 {
		return m.ready[0], true, 0
	}
	var keys []uint32
	for k := range m.ordered {
		keys = append(keys, k)
	}
	if len(keys) == 0 {
		return nil, false, 0
	}
	sort.Slice(keys, func(i, j int) bool { return m.lt(keys[i], keys[j]) })
	k := keys[0]
	s := m.ordered[k]
	ok := completeByTSN(s)
	if m.idata {
		ok = completeByFSN(s)
	}
	if !ok || m.lt(m.next, k) {
		return nil, false, 0
	}
	return s, false, k
}

func (m *rqModel) pop(unordered bool, k uint32) {
	if unordered {
		if m.idata {
			delete(m.readyMID, m.ready[0][0].seq)
		}
		m.ready = m.ready[1:]
		return
	}
	delete(m.ordered, k)
	if k == m.next {
		m.next++
		if !m.idata {
			m.next &= 0xFFFF
		}
	}
}

func (m *rqModel) fwdOrdered(last uint32) {
	for k, s := range m.ordered {
		if k == last || m.lt(k, last) {
			ok := completeByTSN(s)
			if m.idata {
				ok = completeByFSN(s)
			}
			if !ok {
				delete(m.ordered, k)
			}
		}
	}
	if m.next == last || m.lt(m.next, last) {
		m.next = last + 1
		if !m.idata {
			m.next &= 0xFFFF
		}
	}
}

func (m *rqModel) fwdUnorderedTSN(cum uint32) {
	var keep []rqChunk
	for _, c := range m.unordC {
		if sna32lt(cum, c.tsn) {
			keep = append(keep, c)
		}
	}
	m.unordC = keep
}

func (m *rqModel) fwdUnorderedMID(last uint32) {
	if !m.haveSkippedU || sna32lt(m.skippedU, last) {
		m.skippedU, m.haveSkippedU = last, true
	}
	for k := range m.unordM {
		if k == last || sna32lt(k, last) {
			delete(m.unordM, k)
		}
	}
}

// ---------------------------------------------------------------------------------

type rqOp struct {
	kind  int // 0 push, 1 read big, 2 read short, 3 fwd ordered, 4 fwd unordered
	chunk rqChunk
	arg   uint32
}

func (o rqOp) String() string {
	switch o.kind {
	case 0:
		f := ""
		if o.chunk.b {
			f += "B"
		}
		if o.chunk.e {
			f += "E"
		}
		u := "o"
		if o.chunk.u {
			u = "u"
		}
		return fmt.Sprintf("push(%s seq%+d tsn%+d fsn%d %s)", u, int32(o.chunk.seq), int32(o.chunk.tsn), o.chunk.fsn, f)
	case 1:
		return "read"
	case 2:
		return "readshort"
	case 3:
		return fmt.Sprintf("fwdOrdered(%+d)", int32(o.arg))
	}
	return fmt.Sprintf("fwdUnordered(%+d)", int32(o.arg))
}

// rqUniverse: a small universe of messages; sequence numbers and TSNs are offsets from bases.
func rqUniverse(idata bool, seqBase, tsnBase uint32) []rqOp {
	mk := func(u bool, seq, fsn, tsn uint32, b, e bool, data string) rqOp {
		s := seqBase + seq
		if !idata {
			s = uint32(uint16(s))
		}
		return rqOp{kind: 0, chunk: rqChunk{idata: idata, u: u, seq: s, fsn: fsn, tsn: tsnBase + tsn, b: b, e: e, data: data}}
	}
	ops := []rqOp{
		mk(false, 0, 0, 0, true, true, "m0"),
		mk(false, 1, 0, 1, true, false, "m1a"),
		mk(false, 1, 1, 2, false, false, "m1"),
		mk(false, 1, 2, 3, false, true, "m1cc"),
		mk(false, 2, 0, 4, true, true, "m2x"),
		mk(true, 0, 0, 5, true, true, "ua"),
		mk(true, 1, 0, 6, true, false, "ub1"),
		mk(true, 1, 1, 7, false, true, "ub"),
		// a stray fragment with a TSN of its own (a peer that ignores the protocol): one more
		// fragment for the three-fragment message, beyond its end
		mk(false, 1, 3, 8, false, false, "sx"),
	}
	if !idata {
		// unordered DATA chunks carry the SSN of the next ordered message: irrelevant, keep 0
		for i := range ops {
			if ops[i].chunk.u {
				ops[i].chunk.seq = 0
			}
		}
	}
	return ops
}

func applyRQ(r *reassemblyQueue, m *rqModel, o rqOp, si uint16) string {
	switch o.kind {
	case 0:
		c := &chunkPayloadData{streamIdentifier: si, unordered: o.chunk.u, beginningFragment: o.chunk.b, endingFragment: o.chunk.e, tsn: o.chunk.tsn,
			userData: []byte(o.chunk.data), iData: o.chunk.idata, fragmentSequenceNumber: o.chunk.fsn, payloadType: 53}
		if o.chunk.idata {
			c.messageIdentifier = o.chunk.seq
			c.streamSequenceNumber = uint16(o.chunk.seq)
		} else {
			c.streamSequenceNumber = uint16(o.chunk.seq)
		}
		_, err := r.pushWithError(c)
		if err != nil {
			return "push error: " + err.Error()
		}
		m.push(o.chunk)
	case 1, 2:
		buf := make([]byte, 64)
		if o.kind == 2 {
			buf = buf[:1]
		}
		before := r.getNumBytes()
		n, _, err := r.read(buf)
		want, unordered, key := m.peek()
		if want == nil {
			if !errors.Is(err, errTryAgain) {
				return fmt.Sprintf("read returned n=%d err=%v, model has nothing deliverable", n, err)
			}
			return ""
		}
		exp := ""
		for _, c := range want {
			exp += c.data
		}
		if len(buf) < len(exp) {
			if !errors.Is(err, io.ErrShortBuffer) {
				return fmt.Sprintf("read into %d bytes of a %d-byte message returned n=%d err=%v, want io.ErrShortBuffer", len(buf), len(exp), n, err)
			}
			if r.getNumBytes() != before {
				return fmt.Sprintf("short-buffer read changed the byte counter %d -> %d", before, r.getNumBytes())
			}
			return "" // message stays
		}
		if err != nil || string(buf[:n]) != exp {
			return fmt.Sprintf("read returned %q err=%v, model expects %q", buf[:n], err, exp)
		}
		m.pop(unordered, key)
	case 3:
		if o.chunk.idata {
			r.forwardTSNForOrderedMID(o.arg)
		} else {
			r.forwardTSNForOrdered(uint16(o.arg))
		}
		m.fwdOrdered(o.arg)
	case 4:
		if o.chunk.idata {
			r.forwardTSNForUnorderedMID(o.arg)
			m.fwdUnorderedMID(o.arg)
		} else {
			r.forwardTSNForUnordered(o.arg)
			m.fwdUnorderedTSN(o.arg)
		}
	}
	// bounded memory: the index of ordered I-DATA messages holds nothing but the messages
	// that are in the queue (an entry left behind is never looked at again and never freed)
	inList := map[*chunkSetMID]bool{}
	for _, s := range r.orderedMID {
		inList[s] = true
	}
	for mid, s := range r.orderedMIDMap {
		if !inList[s] {
			return fmt.Sprintf("index of ordered messages keeps an entry for MID %d (%d chunks) that is no longer queued", mid, len(s.chunks))
		}
	}
	if held := reassemblyHeld(r); held != r.getNumBytes() {
		return fmt.Sprintf("counter %d but chunks hold %d bytes", r.getNumBytes(), held)
	}
	if mb := m.bytes(); mb != r.getNumBytes() {
		return fmt.Sprintf("counter %d but the model holds %d bytes", r.getNumBytes(), mb)
	}
	nextReal := uint32(r.nextSSN)
	if o.chunk.idata || m.idata {
		nextReal = r.nextMID
	}
	if nextReal != m.next {
		return fmt.Sprintf("cursor %d but the model's is %d", nextReal, m.next)
	}
	return ""
}

func c11Reassembly(j *Job) {
	depth := 5
	if j.Thorough() {
		depth = 6
	}
	item := 0
	for _, idata := range []bool{false, true} {
		seqBases := []uint32{0, 65534}
		if idata {
			seqBases = []uint32{0, 0xFFFFFFFE}
		}
		for _, sb := range seqBases {
			for _, tb := range []uint32{100, 0xFFFFFFFC} {
				uni := rqUniverse(idata, sb, tb)
				ops := append([]rqOp(nil), uni...)
				ops = append(ops, rqOp{kind: 1, chunk: rqChunk{idata: idata}}, rqOp{kind: 2, chunk: rqChunk{idata: idata}})
				s1 := sb + 1
				if !idata {
					s1 = uint32(uint16(s1))
				}
				ops = append(ops, rqOp{kind: 3, chunk: rqChunk{idata: idata}, arg: sb}, rqOp{kind: 3, chunk: rqChunk{idata: idata}, arg: s1})
				// (the third message lies beyond the wrap of the sequence space in the second base)
				s2 := sb + 2
				if !idata {
					s2 = uint32(uint16(s2))
				}
				ops = append(ops, rqOp{kind: 3, chunk: rqChunk{idata: idata}, arg: s2})
				if idata {
					ops = append(ops, rqOp{kind: 4, chunk: rqChunk{idata: idata}, arg: sb}, rqOp{kind: 4, chunk: rqChunk{idata: idata}, arg: sb + 1})
				} else {
					ops = append(ops, rqOp{kind: 4, chunk: rqChunk{idata: idata}, arg: tb + 5}, rqOp{kind: 4, chunk: rqChunk{idata: idata}, arg: tb + 6})
				}
				caseName := fmt.Sprintf("rq/idata%v/seq%d/tsn%d", idata, sb, tb)
				for first := range ops {
					item++
					if !j.mine(item) {
						continue
					}
					j.Stats.Cases++
					path := make([]rqOp, 0, depth+8)
					var rec func()
					rec = func() {
						if j.capped() {
							return
						}
						// replay path on fresh objects
						r := newReassemblyQueue(7, 0)
						m := newRQModel(idata, sb)
						if idata {
							r.nextMID = sb
						} else {
							r.nextSSN = uint16(sb)
						}
						pushedU := map[uint32]bool{}
						for i, o := range path {
							if o.kind == 0 {
								if pushedU[o.chunk.tsn] {
									return // the association never hands the same TSN to a stream twice (canPush)
								}
								pushedU[o.chunk.tsn] = true
							}
							if msg := applyRQ(r, m, o, 7); msg != "" {
								if i == len(path)-1 {
									j.failSeq("reassembly", caseName, fmt.Sprintf("%s after %v: %s", caseName, path, msg), fmt.Sprint(path))
								}
								return
							}
						}
						j.Stats.Steps += int64(len(path))
						j.Stats.NewStates++
						if len(path) >= depth {
							// leaf: deliver the rest of the universe, then drain; model and real must agree to the end
							// (the sender never completes an unordered message it has announced as abandoned)
							abandoned := func(seq uint32) bool {
								if !idata {
									return false
								}
								for _, p := range path {
									if p.kind == 4 && (seq == p.arg || sna32lt(seq, p.arg)) {
										return true
									}
								}
								return false
							}
							for _, o := range uni {
								if pushedU[o.chunk.tsn] || (o.chunk.u && abandoned(o.chunk.seq)) {
									continue
								}
								if msg := applyRQ(r, m, o, 7); msg != "" {
									j.failSeq("reassembly", caseName, fmt.Sprintf("%s after %v then completing with %v: %s", caseName, path, o, msg), fmt.Sprint(path))
									return
								}
							}
							for k := 0; k < 8; k++ {
								if msg := applyRQ(r, m, rqOp{kind: 1, chunk: rqChunk{idata: idata}}, 7); msg != "" {
									j.failSeq("reassembly", caseName, fmt.Sprintf("%s after %v, draining: %s", caseName, path, msg), fmt.Sprint(path))
									return
								}
							}
							// everything that can ever be completed has been read: what is still held
							// can only be fragments of abandoned messages, and those never go away
							if idata && r.getNumBytes() != 0 {
								only := true
								for mid := range r.unorderedMIDMap {
									if !abandoned(mid) {
										only = false
									}
								}
								if only && len(r.orderedMID) == 0 && len(r.ordered) == 0 {
									j.failSeq("reassembly.abandoned-fragment-kept", caseName, fmt.Sprintf("%s after %v, everything completed and read: %d bytes are still held, all of them fragments of unordered messages the peer had announced as abandoned before the fragments arrived (they are never purged: the window never returns to the full buffer)", caseName, path, r.getNumBytes()), fmt.Sprint(path))
								}
							}
							return
						}
						for _, o := range ops {
							path = append(path, o)
							rec()
							path = path[:len(path)-1]
						}
					}
					path = append(path, ops[first])
					rec()
					path = path[:0]
				}
			}
		}
	}
	// entry limits: the push beyond the limit fails and changes nothing
	if j.mine(0) {
		for _, idata := range []bool{false, true} {
			for _, u := range []bool{false, true} {
				r := newReassemblyQueue(7, 2)
				for i := 0; i < 5; i++ {
					before := r.getNumBytes()
					c := &chunkPayloadData{streamIdentifier: 7, unordered: u, beginningFragment: true, endingFragment: false, tsn: uint32(100 + 2*i),
						userData: []byte("xyz"), iData: idata, messageIdentifier: uint32(i), streamSequenceNumber: uint16(i), payloadType: 53}
					_, err := r.pushWithError(c)
					if err != nil && r.getNumBytes() != before {
						j.failSeq("reassembly.limit", "rq/limit", fmt.Sprintf("rejected push (idata=%v u=%v) changed the counter %d -> %d", idata, u, before, r.getNumBytes()), nil)
					}
					if held := reassemblyHeld(r); held != r.getNumBytes() {
						j.failSeq("reassembly.limit", "rq/limit", fmt.Sprintf("counter %d but %d bytes held (idata=%v u=%v)", r.getNumBytes(), held, idata, u), nil)
					}
					if i >= 2 && err == nil {
						j.failSeq("reassembly.limit", "rq/limit", fmt.Sprintf("entry limit 2 not enforced at push %d (idata=%v u=%v)", i, idata, u), nil)
					}
				}
			}
		}
	}
	j.Stats.Execs += int(j.Stats.NewStates)
	j.sample(map[string]any{"engine": "seq", "what": "all operation sequences on the real reassemblyQueue against a reference model", "depth": depth, "alphabet": 14})
}

func propC11(j *Job) {
	c11Reassembly(j)
	c11Association(j)
}
