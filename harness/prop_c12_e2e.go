package sctp

import "fmt"

// c12EndToEnd: the codec monitor (independent decoder, own decode + re-encode, mandatory
// parameters) over every packet emitted in handshake, transfer, reset, shutdown and
// heartbeat runs.
func c12EndToEnd(j *Job) {
	extraMon = monOpts{Codec: true}
	defer func() { extraMon = monOpts{} }()
	modes := stdModes()
	var cases []xferCase
	cases = append(cases, famW1(modes, []uint32{0, 6}, 1)...)
	cases = append(cases, famW5(modes, 1)...)
	cases = append(cases, famW2(modes[:2], 0)...)
	runCases(j, cases, func(spec *xferSpec) func(m *Sim, x *Exec, r *xferResult) {
		return deliveryFinal(spec, false, monOpts{Codec: true})
	})
	for mi, mode := range modes {
		a, b := withBase(mode.A, 100, 0xFFFFFFFA, 4000), withBase(mode.B, 100, 0xFFFFFFF0, 4000)
		j.Explore(fmt.Sprintf("codec/reset/%s", mode.Name), resetScenario(&resetSpec{A: a, B: b, SIDs: []uint16{5, 6}, Sizes: []int{10, 200, 11}, Cycles: 2,
			Faults: allFaults, BackSizes: []int{12}}), Budget{K: 1}, nil)
		j.Explore(fmt.Sprintf("codec/shutdown/%s", mode.Name), shutScenario(&shutSpec{A: a, B: b, Sizes: []int{60, 300, 61}, BSizes: []int{20, 21}, Crossed: mi % 3, Faults: allFaults}), Budget{K: 1}, nil)
		j.Explore(fmt.Sprintf("codec/heartbeat/%s", mode.Name), c19Scenario(&c19Spec{kind: "heartbeat", rtoMax: 4000, il: !mode.A.NoInterleave}), Budget{K: 1}, nil)
		for opt := 0; opt < 16; opt += 5 {
			ha := epCfg{NoInterleave: opt&1 != 0, ZeroChecksum: opt&2 != 0, RTOMax: 4000, InitTSN: 0xFFFFFFFE, MTU: 228}
			hb := epCfg{Server: mi != 1, NoInterleave: opt&4 != 0, ZeroChecksum: opt&8 != 0, RTOMax: 4000, InitTSN: 5, MTU: 228}
			j.Explore(fmt.Sprintf("codec/handshake/%d/opt%d", mi, opt), hsScenario(&hsSpec{A: ha, B: hb, Faults: allFaults, Stale: true}), Budget{K: 1}, nil)
		}
	}
}
