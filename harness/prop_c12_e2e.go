package sctp

func c12EndToEnd(j *Job) {}
