package sctp

// Independent SCTP wire codec used by the monitors and by the scripted peer.  Written from
// RFC 9260 / 3758 / 6525 / 8260 and draft-ietf-tsvwg-sctp-zero-checksum; shares no code
// with the package under test (own CRC32c, own TLV walkers).

import (
	"encoding/binary"
	"fmt"
	"sort"
	"strings"
)

const (
	wDATA        = 0
	wINIT        = 1
	wINITACK     = 2
	wSACK        = 3
	wHEARTBEAT   = 4
	wHBACK       = 5
	wABORT       = 6
	wSHUTDOWN    = 7
	wSHUTDOWNACK = 8
	wERROR       = 9
	wCOOKIEECHO  = 10
	wCOOKIEACK   = 11
	wSHUTCOMPL   = 14
	wIDATA       = 64
	wRECONFIG    = 130
	wFWDTSN      = 192
	wIFWDTSN     = 194
)

func wTypeName(t uint8) string {
	switch t {
	case wDATA:
		return "DATA"
	case wINIT:
		return "INIT"
	case wINITACK:
		return "INIT-ACK"
	case wSACK:
		return "SACK"
	case wHEARTBEAT:
		return "HEARTBEAT"
	case wHBACK:
		return "HEARTBEAT-ACK"
	case wABORT:
		return "ABORT"
	case wSHUTDOWN:
		return "SHUTDOWN"
	case wSHUTDOWNACK:
		return "SHUTDOWN-ACK"
	case wERROR:
		return "ERROR"
	case wCOOKIEECHO:
		return "COOKIE-ECHO"
	case wCOOKIEACK:
		return "COOKIE-ACK"
	case wSHUTCOMPL:
		return "SHUTDOWN-COMPLETE"
	case wIDATA:
		return "I-DATA"
	case wRECONFIG:
		return "RECONFIG"
	case wFWDTSN:
		return "FORWARD-TSN"
	case wIFWDTSN:
		return "I-FORWARD-TSN"
	}
	return fmt.Sprintf("T%d", t)
}

// bitwise reflected CRC32c (Castagnoli), independent of hash/crc32
var wcrcTable = func() (t [256]uint32) {
	for i := 0; i < 256; i++ {
		c := uint32(i)
		for k := 0; k < 8; k++ {
			if c&1 != 0 {
				c = (c >> 1) ^ 0x82F63B78
			} else {
				c >>= 1
			}
		}
		t[i] = c
	}
	return
}()

func wcrc32c(b []byte) uint32 {
	c := ^uint32(0)
	for _, x := range b {
		c = wcrcTable[byte(c)^x] ^ (c >> 8)
	}
	return ^c
}

// wChecksum computes the SCTP checksum of raw (checksum field treated as zero).
func wChecksum(raw []byte) uint32 {
	tmp := make([]byte, len(raw))
	copy(tmp, raw)
	tmp[8], tmp[9], tmp[10], tmp[11] = 0, 0, 0, 0
	return wcrc32c(tmp)
}

type wTLV struct {
	Typ uint16
	Val []byte
}

type wGap struct{ Start, End uint16 }

type wFwdStream struct {
	SID       uint16
	SSN       uint16
	Unordered bool
	MID       uint32
}

type wChunk struct {
	Typ   uint8
	Flags uint8
	Len   uint16 // length field
	Val   []byte // value bytes (Len-4)
	Pad   int

	// DATA / I-DATA
	TSN        uint32
	SID        uint16
	SSN        uint16
	MID        uint32
	FSN        uint32
	PPI        uint32
	Data       []byte
	U, B, E, I bool
	// INIT / INIT-ACK
	InitTag, ARwnd, InitTSN uint32
	OS, MIS                 uint16
	Params                  []wTLV
	// SACK
	CumAck uint32
	Gaps   []wGap
	Dups   []uint32
	// FORWARD-TSN
	NewCum  uint32
	Streams []wFwdStream
	// ABORT / ERROR
	Causes []wTLV
	// COOKIE-ECHO
	Cookie []byte
	// RECONFIG params; HEARTBEAT params
	// (Params reused)
}

type wPacket struct {
	SPort, DPort uint16
	VTag         uint32
	Cksum        uint32 // as stored, little-endian read like the checksum value
	CksumOK      bool
	CksumZero    bool
	Chunks       []wChunk
	Len          int
}

func be16(b []byte) uint16 { return binary.BigEndian.Uint16(b) }
func be32(b []byte) uint32 { return binary.BigEndian.Uint32(b) }

func wParseTLVs(b []byte, what string) ([]wTLV, error) {
	var out []wTLV
	for len(b) > 0 {
		if len(b) < 4 {
			return out, fmt.Errorf("%s: %d trailing bytes", what, len(b))
		}
		l := int(be16(b[2:]))
		if l < 4 || l > len(b) {
			return out, fmt.Errorf("%s: tlv length %d with %d left", what, l, len(b))
		}
		out = append(out, wTLV{Typ: be16(b), Val: b[4:l]})
		adv := (l + 3) &^ 3
		if adv > len(b) {
			// last TLV may be unpadded inside the chunk value
			adv = len(b)
		} else {
			for _, x := range b[l:adv] {
				if x != 0 {
					return out, fmt.Errorf("%s: non-zero tlv padding", what)
				}
			}
		}
		b = b[adv:]
	}
	return out, nil
}

// wDecode parses a packet strictly.  Structural problems are returned as an error.
func wDecode(raw []byte) (*wPacket, error) {
	if len(raw) < 12 {
		return nil, fmt.Errorf("short packet %d", len(raw))
	}
	if len(raw)%4 != 0 {
		return nil, fmt.Errorf("packet length %d not a multiple of 4", len(raw))
	}
	p := &wPacket{SPort: be16(raw), DPort: be16(raw[2:]), VTag: be32(raw[4:]), Len: len(raw)}
	p.Cksum = binary.LittleEndian.Uint32(raw[8:])
	p.CksumZero = p.Cksum == 0
	p.CksumOK = p.Cksum == wChecksum(raw)
	off := 12
	for off < len(raw) {
		if len(raw)-off < 4 {
			return p, fmt.Errorf("chunk header truncated at %d", off)
		}
		c := wChunk{Typ: raw[off], Flags: raw[off+1], Len: be16(raw[off+2:])}
		if c.Len < 4 || off+int(c.Len) > len(raw) {
			return p, fmt.Errorf("chunk %s length %d at %d exceeds packet %d", wTypeName(c.Typ), c.Len, off, len(raw))
		}
		c.Val = raw[off+4 : off+int(c.Len)]
		end := off + (int(c.Len)+3)&^3
		if end > len(raw) {
			return p, fmt.Errorf("chunk %s padding missing", wTypeName(c.Typ))
		}
		c.Pad = end - (off + int(c.Len))
		for _, x := range raw[off+int(c.Len) : end] {
			if x != 0 {
				return p, fmt.Errorf("chunk %s non-zero padding", wTypeName(c.Typ))
			}
		}
		if err := c.decodeBody(); err != nil {
			return p, err
		}
		p.Chunks = append(p.Chunks, c)
		off = end
	}
	return p, nil
}

func (c *wChunk) decodeBody() error {
	v := c.Val
	name := wTypeName(c.Typ)
	switch c.Typ {
	case wDATA:
		if len(v) < 12 {
			return fmt.Errorf("DATA too short")
		}
		c.TSN, c.SID, c.SSN, c.PPI, c.Data = be32(v), be16(v[4:]), be16(v[6:]), be32(v[8:]), v[12:]
		c.E, c.B, c.U, c.I = c.Flags&1 != 0, c.Flags&2 != 0, c.Flags&4 != 0, c.Flags&8 != 0
	case wIDATA:
		if len(v) < 16 {
			return fmt.Errorf("I-DATA too short")
		}
		c.TSN, c.SID, c.MID, c.Data = be32(v), be16(v[4:]), be32(v[8:]), v[16:]
		c.E, c.B, c.U, c.I = c.Flags&1 != 0, c.Flags&2 != 0, c.Flags&4 != 0, c.Flags&8 != 0
		if c.B {
			c.PPI = be32(v[12:])
		} else {
			c.FSN = be32(v[12:])
		}
	case wINIT, wINITACK:
		if len(v) < 16 {
			return fmt.Errorf("%s too short", name)
		}
		c.InitTag, c.ARwnd, c.OS, c.MIS, c.InitTSN = be32(v), be32(v[4:]), be16(v[8:]), be16(v[10:]), be32(v[12:])
		ps, err := wParseTLVs(v[16:], name)
		if err != nil {
			return err
		}
		c.Params = ps
	case wSACK:
		if len(v) < 12 {
			return fmt.Errorf("SACK too short")
		}
		c.CumAck, c.ARwnd = be32(v), be32(v[4:])
		ng, nd := int(be16(v[8:])), int(be16(v[10:]))
		if len(v) != 12+4*ng+4*nd {
			return fmt.Errorf("SACK length mismatch")
		}
		o := 12
		for i := 0; i < ng; i++ {
			c.Gaps = append(c.Gaps, wGap{be16(v[o:]), be16(v[o+2:])})
			o += 4
		}
		for i := 0; i < nd; i++ {
			c.Dups = append(c.Dups, be32(v[o:]))
			o += 4
		}
	case wHEARTBEAT, wHBACK:
		ps, err := wParseTLVs(v, name)
		if err != nil {
			return err
		}
		c.Params = ps
	case wABORT, wERROR:
		ps, err := wParseTLVs(v, name)
		if err != nil {
			return err
		}
		c.Causes = ps
	case wSHUTDOWN:
		if len(v) != 4 {
			return fmt.Errorf("SHUTDOWN length")
		}
		c.CumAck = be32(v)
	case wSHUTDOWNACK, wSHUTCOMPL, wCOOKIEACK:
		if len(v) != 0 {
			return fmt.Errorf("%s has a body", name)
		}
	case wCOOKIEECHO:
		c.Cookie = v
	case wRECONFIG:
		ps, err := wParseTLVs(v, name)
		if err != nil {
			return err
		}
		c.Params = ps
	case wFWDTSN:
		if len(v) < 4 || (len(v)-4)%4 != 0 {
			return fmt.Errorf("FORWARD-TSN length")
		}
		c.NewCum = be32(v)
		for o := 4; o < len(v); o += 4 {
			c.Streams = append(c.Streams, wFwdStream{SID: be16(v[o:]), SSN: be16(v[o+2:])})
		}
	case wIFWDTSN:
		if len(v) < 4 || (len(v)-4)%8 != 0 {
			return fmt.Errorf("I-FORWARD-TSN length")
		}
		c.NewCum = be32(v)
		for o := 4; o < len(v); o += 8 {
			c.Streams = append(c.Streams, wFwdStream{SID: be16(v[o:]), Unordered: be16(v[o+2:])&1 != 0, MID: be32(v[o+4:])})
		}
	default:
		// unknown chunk: keep raw
	}
	return nil
}

// Summary is a canonical one-line rendering (lists sorted, cookie masked) used in traces.
func (p *wPacket) Summary() string {
	var b strings.Builder
	for i, c := range p.Chunks {
		if i > 0 {
			b.WriteString(" + ")
		}
		b.WriteString(c.Summary())
	}
	return b.String()
}

func (c *wChunk) Summary() string {
	switch c.Typ {
	case wDATA:
		return fmt.Sprintf("DATA tsn=%d sid=%d ssn=%d ppi=%d %s len=%d", c.TSN, c.SID, c.SSN, c.PPI, flagStr(c), len(c.Data))
	case wIDATA:
		return fmt.Sprintf("I-DATA tsn=%d sid=%d mid=%d fsn=%d ppi=%d %s len=%d", c.TSN, c.SID, c.MID, c.FSN, c.PPI, flagStr(c), len(c.Data))
	case wINIT, wINITACK:
		return fmt.Sprintf("%s tag=%d arwnd=%d tsn=%d params=%s", wTypeName(c.Typ), c.InitTag, c.ARwnd, c.InitTSN, tlvTypes(c.Params))
	case wSACK:
		return fmt.Sprintf("SACK cum=%d arwnd=%d gaps=%v dups=%v", c.CumAck, c.ARwnd, c.Gaps, c.Dups)
	case wFWDTSN, wIFWDTSN:
		ss := append([]wFwdStream(nil), c.Streams...)
		sort.Slice(ss, func(i, j int) bool {
			if ss[i].SID != ss[j].SID {
				return ss[i].SID < ss[j].SID
			}
			return !ss[i].Unordered && ss[j].Unordered
		})
		return fmt.Sprintf("%s cum=%d streams=%v", wTypeName(c.Typ), c.NewCum, ss)
	case wSHUTDOWN:
		return fmt.Sprintf("SHUTDOWN cum=%d", c.CumAck)
	case wABORT, wERROR:
		return fmt.Sprintf("%s causes=%s", wTypeName(c.Typ), tlvTypes(c.Causes))
	case wRECONFIG:
		var parts []string
		for _, p := range c.Params {
			switch p.Typ {
			case 13:
				if len(p.Val) >= 12 {
					var sids []uint16
					for o := 12; o+1 < len(p.Val); o += 2 {
						sids = append(sids, be16(p.Val[o:]))
					}
					sort.Slice(sids, func(i, j int) bool { return sids[i] < sids[j] })
					parts = append(parts, fmt.Sprintf("OutReset rsn=%d last=%d sids=%v", be32(p.Val), be32(p.Val[8:]), sids))
				}
			case 16:
				if len(p.Val) >= 8 {
					parts = append(parts, fmt.Sprintf("Resp rsn=%d result=%d", be32(p.Val), be32(p.Val[4:])))
				}
			default:
				parts = append(parts, fmt.Sprintf("P%d", p.Typ))
			}
		}
		return "RECONFIG " + strings.Join(parts, ",")
	case wHEARTBEAT, wHBACK:
		n := -1
		if len(c.Params) > 0 {
			n = len(c.Params[0].Val)
		}
		return fmt.Sprintf("%s info=%d", wTypeName(c.Typ), n)
	case wCOOKIEECHO:
		return fmt.Sprintf("COOKIE-ECHO len=%d", len(c.Cookie))
	}
	return wTypeName(c.Typ)
}

func flagStr(c *wChunk) string {
	s := ""
	if c.U {
		s += "U"
	}
	if c.B {
		s += "B"
	}
	if c.E {
		s += "E"
	}
	if c.I {
		s += "I"
	}
	if s == "" {
		s = "-"
	}
	return s
}

func tlvTypes(ts []wTLV) string {
	var parts []string
	for _, t := range ts {
		parts = append(parts, fmt.Sprintf("%d/%d", t.Typ, len(t.Val)))
	}
	return "[" + strings.Join(parts, " ") + "]"
}

// ---------------------------------------------------------------------------------
// Encoder (for the scripted peer and codec checks).

type wBuilder struct{ b []byte }

func wNewPacket(sport, dport uint16, vtag uint32) *wBuilder {
	w := &wBuilder{b: make([]byte, 12)}
	binary.BigEndian.PutUint16(w.b, sport)
	binary.BigEndian.PutUint16(w.b[2:], dport)
	binary.BigEndian.PutUint32(w.b[4:], vtag)
	return w
}

func (w *wBuilder) chunk(typ, flags uint8, val []byte) *wBuilder {
	h := []byte{typ, flags, 0, 0}
	binary.BigEndian.PutUint16(h[2:], uint16(4+len(val)))
	w.b = append(w.b, h...)
	w.b = append(w.b, val...)
	for len(w.b)%4 != 0 {
		w.b = append(w.b, 0)
	}
	return w
}

// rawChunk appends bytes verbatim (for malformed input).
func (w *wBuilder) rawChunk(b []byte) *wBuilder {
	w.b = append(w.b, b...)
	return w
}

func (w *wBuilder) bytes(withCRC bool) []byte {
	out := append([]byte(nil), w.b...)
	if withCRC {
		binary.LittleEndian.PutUint32(out[8:], wChecksum(out))
	}
	return out
}

func u32(v uint32) []byte { b := make([]byte, 4); binary.BigEndian.PutUint32(b, v); return b }
func u16(v uint16) []byte { b := make([]byte, 2); binary.BigEndian.PutUint16(b, v); return b }

func cat(bs ...[]byte) []byte {
	var out []byte
	for _, b := range bs {
		out = append(out, b...)
	}
	return out
}

func wTLVBytes(typ uint16, val []byte, pad bool) []byte {
	out := cat(u16(typ), u16(uint16(4+len(val))), val)
	if pad {
		for len(out)%4 != 0 {
			out = append(out, 0)
		}
	}
	return out
}

func wDataVal(tsn uint32, sid, ssn uint16, ppi uint32, data []byte) []byte {
	return cat(u32(tsn), u16(sid), u16(ssn), u32(ppi), data)
}

func wIDataVal(tsn uint32, sid uint16, mid, ppiOrFsn uint32, data []byte) []byte {
	return cat(u32(tsn), u16(sid), u16(0), u32(mid), u32(ppiOrFsn), data)
}

func wSackVal(cum, arwnd uint32, gaps []wGap, dups []uint32) []byte {
	out := cat(u32(cum), u32(arwnd), u16(uint16(len(gaps))), u16(uint16(len(dups))))
	for _, g := range gaps {
		out = append(out, cat(u16(g.Start), u16(g.End))...)
	}
	for _, d := range dups {
		out = append(out, u32(d)...)
	}
	return out
}

func wFwdVal(cum uint32, ss []wFwdStream) []byte {
	out := u32(cum)
	for _, s := range ss {
		out = append(out, cat(u16(s.SID), u16(s.SSN))...)
	}
	return out
}

func wIFwdVal(cum uint32, ss []wFwdStream) []byte {
	out := u32(cum)
	for _, s := range ss {
		f := uint16(0)
		if s.Unordered {
			f = 1
		}
		out = append(out, cat(u16(s.SID), u16(f), u32(s.MID))...)
	}
	return out
}

func wInitVal(tag, arwnd uint32, os, mis uint16, tsn uint32, params ...[]byte) []byte {
	out := cat(u32(tag), u32(arwnd), u16(os), u16(mis), u32(tsn))
	for i, p := range params {
		out = append(out, p...)
		if i != len(params)-1 {
			for len(out)%4 != 0 {
				out = append(out, 0)
			}
		}
	}
	return out
}
