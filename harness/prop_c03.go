package sctp

import (
	"context"
	"encoding/binary"
	"fmt"
	"strings"
	"time"

	"github.com/pion/sctp/internal/vsched"
)

func init() { register("C03", propC03) }

type hostilePkt struct {
	name   string
	raw    []byte
	ignore bool // must leave the transfer snapshot untouched
	// prep (optional) runs before the snapshot is taken and returns the bytes to inject (nil: skip)
	prep func() []byte
}

type e2Base struct {
	name   string
	server bool
	il     bool
	build  func(p *scripted) bool
}

// e2Bases are the states hostile packets are injected into.
func e2Bases() []e2Base {
	est := func(p *scripted) bool {
		if p.cfg.Server {
			return p.connectServer()
		}
		return p.connectClient()
	}
	var bases []e2Base
	for _, il := range []bool{false, true} {
		il := il
		tag := "DATA"
		if il {
			tag = "IDATA"
		}
		bases = append(bases,
			e2Base{"closed-server/" + tag, true, il, func(p *scripted) bool {
				p.dialT = p.m.Go("dial", func() { p.m.Dial(0, p.cfg) })
				p.settle(100 * time.Millisecond)
				p.aTag = 0
				return true
			}},
			e2Base{"cookieWait/" + tag, false, il, func(p *scripted) bool {
				p.dialT = p.m.Go("dial", func() { p.m.Dial(0, p.cfg) })
				out := p.settle(200 * time.Millisecond)
				return len(out) > 0
			}},
			e2Base{"cookieEchoed/" + tag, false, il, func(p *scripted) bool {
				p.dialT = p.m.Go("dial", func() { p.m.Dial(0, p.cfg) })
				p.settle(200 * time.Millisecond)
				cookie := []byte("cookie-cookie-cookie-cookie-1234")
				iack := chunkBytes(wINITACK, 0, wInitVal(p.tag, p.arwnd, 65535, 65535, p.tsn0, append([][]byte{wTLVBytes(7, cookie, true)}, p.initParams()...)...))
				p.inject(p.pkt(iack))
				return true
			}},
			e2Base{"est-idle/" + tag, false, il, func(p *scripted) bool {
				if !est(p) {
					return false
				}
				p.startReader(1)
				p.sendMsg(1, 30, 1)
				return true
			}},
			e2Base{"est-unread/" + tag, false, il, func(p *scripted) bool {
				if !est(p) {
					return false
				}
				// two complete fragmented messages are received but not read yet
				s, err := p.a.OpenStream(1, PayloadTypeWebRTCBinary)
				if err != nil {
					return false
				}
				p.m.streamsSeen = append(p.m.streamsSeen, s)
				p.unread = s
				p.unreadWant = []string{string(p.sendMsg(1, 60, 2)), string(p.sendMsg(1, 61, 2))}
				return true
			}},
			e2Base{"est-inflight/" + tag, true, il, func(p *scripted) bool {
				if !est(p) {
					return false
				}
				p.startReader(1)
				s, _ := p.a.OpenStream(2, PayloadTypeWebRTCBinary)
				p.m.streamsSeen = append(p.m.streamsSeen, s)
				P := int(p.a.maxPayloadSize)
				for i, sz := range []int{20, 2*P + 5, 21, 22} {
					s.WriteSCTP(payload(2, i, sz), PayloadTypeWebRTCBinary)
				}
				p.settle(50 * time.Millisecond)
				// gap-ack the second chunk only
				p.inject(p.pkt(chunkBytes(wSACK, 0, wSackVal(p.aTSN0-1, p.arwnd, []wGap{{2, 2}}, nil))))
				return true
			}},
			e2Base{"est-reasm/" + tag, false, il, func(p *scripted) bool {
				if !est(p) {
					return false
				}
				p.startReader(1)
				p.sendMsg(1, 25, 1)
				// first fragment of a 3-fragment message, then a complete later message (held back)
				seq := uint32(p.ssn[1])
				if p.il {
					seq = p.mid[1]
				}
				p.inject(p.pkt(p.dataChunk(p.tsn, 1, seq, 0, 53, 2, []byte("frag-one"), 0)))
				p.inject(p.pkt(p.dataChunk(p.tsn+3, 1, seq+1, 0, 53, 3, []byte("later-message"), 0)))
				p.tsn += 4
				return true
			}},
			e2Base{"est-backlog/" + tag, false, il, func(p *scripted) bool {
				if !est(p) {
					return false
				}
				p.startReader(1)
				p.sendMsg(1, 30, 1)
				// the application is behind on AcceptStream: the accept backlog is full
				// (streams the endpoint cannot register are a state of their own for every
				// chunk that names a stream)
				for sid := uint16(100); sid < 100+uint16(acceptChSize); sid++ {
					p.sendMsg(sid, 20, 1)
				}
				return true
			}},
			e2Base{"est-reset/" + tag, true, il, func(p *scripted) bool {
				if !est(p) {
					return false
				}
				p.startReader(1)
				s, _ := p.a.OpenStream(3, PayloadTypeWebRTCBinary)
				p.m.streamsSeen = append(p.m.streamsSeen, s)
				s.WriteSCTP(payload(3, 0, 12), PayloadTypeWebRTCBinary)
				p.settle(50 * time.Millisecond)
				p.ackAll()
				s.Close()
				p.settle(50 * time.Millisecond)
				return true
			}},
			e2Base{"shutdownPending/" + tag, false, il, func(p *scripted) bool {
				if !est(p) {
					return false
				}
				s, _ := p.a.OpenStream(2, PayloadTypeWebRTCBinary)
				s.WriteSCTP(payload(2, 0, 40), PayloadTypeWebRTCBinary)
				p.settle(50 * time.Millisecond)
				p.m.Go("shutdown", func() {
					ctx, cancel := context.WithTimeout(context.Background(), 100*time.Second)
					defer cancel()
					p.a.Shutdown(ctx)
				})
				p.settle(50 * time.Millisecond)
				return p.a.getState() == shutdownPending
			}},
			e2Base{"shutdownSent/" + tag, true, il, func(p *scripted) bool {
				if !est(p) {
					return false
				}
				p.m.Go("shutdown", func() {
					ctx, cancel := context.WithTimeout(context.Background(), 100*time.Second)
					defer cancel()
					p.a.Shutdown(ctx)
				})
				p.settle(50 * time.Millisecond)
				return p.a.getState() == shutdownSent
			}},
			e2Base{"shutdownReceived/" + tag, false, il, func(p *scripted) bool {
				if !est(p) {
					return false
				}
				s, _ := p.a.OpenStream(2, PayloadTypeWebRTCBinary)
				s.WriteSCTP(payload(2, 0, 40), PayloadTypeWebRTCBinary)
				p.settle(50 * time.Millisecond)
				p.inject(p.pkt(chunkBytes(wSHUTDOWN, 0, u32(p.aTSN0-1))))
				return p.a.getState() == shutdownReceived
			}},
			e2Base{"shutdownAckSent/" + tag, true, il, func(p *scripted) bool {
				if !est(p) {
					return false
				}
				p.inject(p.pkt(chunkBytes(wSHUTDOWN, 0, u32(p.aTSN0-1))))
				return p.a.getState() == shutdownAckSent
			}},
		)
	}
	return bases
}

// hostileAlphabet builds structurally valid packets with adversarial field values relative
// to the endpoint's live state.
func hostileAlphabet(p *scripted) []hostilePkt {
	var out []hostilePkt
	add := func(name string, ignore bool, chunks ...[]byte) {
		out = append(out, hostilePkt{name: name, raw: p.pkt(chunks...), ignore: ignore})
	}
	var ack, next, peerLast, W uint32
	W = 2048
	if p.a != nil {
		ack, next, peerLast = p.a.cumulativeTSNAckPoint, p.a.myNextTSN, p.a.payloadQueue.cumulativeTSN
		W = p.a.payloadQueue.maxTSNOffset
	} else {
		ack, next, peerLast = p.aTSN0-1, p.aTSN0, p.tsn0-1
	}
	inflight := int32(next - 1 - ack)
	// SACK
	type cumv struct {
		n   string
		v   uint32
		bad bool
	}
	cums := []cumv{{"ack-1", ack - 1, true}, {"ack", ack, false}, {"ack+1", ack + 1, inflight < 1}, {"next-1", next - 1, false}, {"next", next, true}, {"next+5", next + 5, true}, {"ack+2^31-1", ack + 1<<31 - 1, true}}
	type gapv struct {
		n   string
		g   []wGap
		bad bool
	}
	gaps := []gapv{{"none", nil, false}, {"first", []wGap{{1, 1}}, false}, {"reversed", []wGap{{3, 2}}, true}, {"start0", []wGap{{0, 1}}, true},
		{"beyond", []wGap{{uint16(inflight + 2), uint16(inflight + 3)}}, true}, {"overlap", []wGap{{1, 2}, {2, 3}}, false}, {"ffff", []wGap{{1, 0xFFFF}}, true}}
	for _, c := range cums {
		for gi, g := range gaps {
			for _, rw := range []uint32{0, 1, 1 << 20} {
				if gi > 1 && rw != 1<<20 {
					continue
				}
				bad := c.bad || g.bad
				if !bad && len(g.g) > 0 {
					// gap validity depends on what is in flight relative to this cum
					last := c.v + uint32(g.g[len(g.g)-1].End)
					if !sna32lt(last, next) {
						bad = true
					}
				}
				add(fmt.Sprintf("SACK/cum=%s/gap=%s/rwnd=%d", c.n, g.n, rw), bad, chunkBytes(wSACK, 0, wSackVal(c.v, rw, g.g, []uint32{ack, 7})))
			}
		}
	}
	// DATA-class
	seq := uint32(p.ssn[1])
	if p.il {
		seq = p.mid[1]
	}
	type tsnv struct {
		n      string
		v      uint32
		ignore bool
	}
	tsns := []tsnv{{"dup", peerLast, true}, {"expected", peerLast + 1, false}, {"+2", peerLast + 2, false}, {"edge", peerLast + W, false}, {"edge+1", peerLast + W + 1, true}, {"-2^31", peerLast - 1<<31, true}}
	for _, t := range tsns {
		for _, fl := range []uint8{3, 2, 0, 1, 7, 11} {
			if fl != 3 && t.n != "expected" && t.n != "+2" {
				continue
			}
			add(fmt.Sprintf("DATA/tsn=%s/fl=%d", t.n, fl), t.ignore, p.dataChunk(t.v, 1, seq, 1, 53, fl, []byte("hostile-data"), 0))
		}
		add(fmt.Sprintf("DATA/tsn=%s/ssn-far", t.n), t.ignore, p.dataChunk(t.v, 1, seq+40000, 0, 53, 3, []byte("far-ssn"), 0))
		add(fmt.Sprintf("DATA/tsn=%s/ssn-old", t.n), t.ignore, p.dataChunk(t.v, 1, seq-1, 0, 53, 3, []byte("old-ssn"), 0))
		if t.n == "expected" || t.n == "+2" {
			// a further fragment for the most recent message, which may be complete already
			for _, fl := range []uint8{0, 1, 2} {
				add(fmt.Sprintf("DATA/tsn=%s/ssn-old/fl=%d", t.n, fl), t.ignore, p.dataChunk(t.v, 1, seq-1, 7, 53, fl, []byte("old-ssn-frag"), 0))
			}
		}
		add(fmt.Sprintf("DATA/tsn=%s/newstream", t.n), t.ignore, p.dataChunk(t.v, 999, 0, 0, 53, 3, []byte("new-stream"), 0))
	}
	if p.il {
		// an ordered message identifier exactly half the number space ahead of the reader: it has no
		// order against what is queued and must not be filed in front of it
		mid := uint32(1 << 31)
		if p.a != nil {
			p.a.lock.RLock()
			if st := p.a.streams[1]; st != nil {
				mid = st.reassemblyQueue.nextMID + 1<<31
			}
			p.a.lock.RUnlock()
		}
		add("DATA/tsn=expected/mid-half", false, p.dataChunk(peerLast+1, 1, mid, 0, 53, 3, []byte("half-space"), 0))
	} else {
		// (DATA mode: the 16-bit case is guarded relative to the cursor and covered by family Z8;
		// in a pair behind a skip it would put an unread message half the space behind the new
		// chunk, which the property excludes - the slot keeps the alphabet's length and repeats ssn-far)
		add("DATA/tsn=expected/mid-half", false, p.dataChunk(peerLast+1, 1, seq+40000, 0, 53, 3, []byte("far-ssn"), 0))
	}
	add("DATA/empty", false, p.dataChunk(peerLast+1, 1, seq, 0, 53, 3, nil, 0))
	add("DATA/wrongkind", false, p.dataChunk(peerLast+1, 1, seq, 0, 53, 3, []byte("wrong-kind"), map[bool]int{false: 2, true: 1}[p.il]))
	add("DATA/wrongkind-dup", false, p.dataChunk(peerLast, 1, seq, 0, 53, 3, []byte("wrong-kind"), map[bool]int{false: 2, true: 1}[p.il]))
	// FORWARD-TSN family
	var curSSN uint16
	var curMID uint32
	if p.a != nil {
		p.a.lock.RLock()
		if st := p.a.streams[1]; st != nil {
			curSSN, curMID = st.reassemblyQueue.nextSSN, st.reassemblyQueue.nextMID
		}
		p.a.lock.RUnlock()
	}
	for _, f := range []struct {
		n      string
		v      uint32
		ignore bool
	}{{"behind", peerLast - 3, true}, {"at", peerLast, true}, {"+1", peerLast + 1, false}, {"+W", peerLast + W, false}, {"+2^31-1", peerLast + 1<<31 - 1, false},
		// exactly half the number space away: neither ahead nor behind - it cannot move the
		// cumulative point, and then it must not move any stream's cursor either
		{"+2^31", peerLast + 1<<31, true}} {
		for _, ss := range []struct {
			n string
			s []wFwdStream
		}{{"none", nil}, {"known", []wFwdStream{{SID: 1, SSN: uint16(seq), MID: seq}}}, {"unknown", []wFwdStream{{SID: 777, SSN: 5, MID: 5}}}, {"dup", []wFwdStream{{SID: 1, SSN: 1, MID: 1}, {SID: 1, SSN: 9, MID: 9}, {SID: 1, SSN: 3, MID: 3, Unordered: true}}},
			// a sequence number the reader has passed already (what a peer reports that still counts an
			// earlier incarnation of the stream; two behind the reader's cursor, serially also when that is 0 or 1):
			// the cursor must not move backwards
			{"stale", []wFwdStream{{SID: 1, SSN: curSSN - 2, MID: curMID - 2}}}} {

			if p.il {
				add(fmt.Sprintf("IFWD/%s/%s", f.n, ss.n), f.ignore, chunkBytes(wIFWDTSN, 0, wIFwdVal(f.v, ss.s)))
			} else {
				add(fmt.Sprintf("FWD/%s/%s", f.n, ss.n), f.ignore, chunkBytes(wFWDTSN, 0, wFwdVal(f.v, ss.s)))
			}
		}
	}
	if p.il {
		add("FWD/wrongkind", false, chunkBytes(wFWDTSN, 0, wFwdVal(peerLast+1, nil)))
	} else {
		add("IFWD/wrongkind", false, chunkBytes(wIFWDTSN, 0, wIFwdVal(peerLast+1, nil)))
	}
	// RECONFIG
	outReq := func(rsn, last uint32, sids ...uint16) []byte {
		v := cat(u32(rsn), u32(0), u32(last))
		for _, s := range sids {
			v = append(v, u16(s)...)
		}
		return wTLVBytes(13, v, true)
	}
	resp := func(rsn, result uint32) []byte { return wTLVBytes(16, cat(u32(rsn), u32(result)), true) }
	add("RECONFIG/req-known", false, chunkBytes(wRECONFIG, 0, outReq(p.tsn0, peerLast, 1)))
	add("RECONFIG/req-unknown-stream", false, chunkBytes(wRECONFIG, 0, outReq(p.tsn0+1, peerLast, 4242)))
	add("RECONFIG/req-far", false, chunkBytes(wRECONFIG, 0, outReq(p.tsn0+2, peerLast+1<<30, 1)))
	add("RECONFIG/req-nostreams", false, chunkBytes(wRECONFIG, 0, outReq(p.tsn0+3, peerLast)))
	add("RECONFIG/resp-unknown", true, chunkBytes(wRECONFIG, 0, resp(12345, 1)))
	add("RECONFIG/resp-inprogress-unknown", true, chunkBytes(wRECONFIG, 0, resp(12345, 6)))
	if p.a != nil {
		add("RECONFIG/resp-current-denied", false, chunkBytes(wRECONFIG, 0, resp(p.a.myNextRSN-1, 2)))
	}
	add("RECONFIG/two", false, chunkBytes(wRECONFIG, 0, cat(outReq(p.tsn0+4, peerLast, 1), resp(999, 1))))
	add("RECONFIG/wrongparam", true, chunkBytes(wRECONFIG, 0, wTLVBytes(7, []byte("cookie"), true)))
	add("RECONFIG/empty", true, chunkBytes(wRECONFIG, 0, nil))
	// handshake chunks
	add("INIT", false, chunkBytes(wINIT, 0, wInitVal(0x77, 1<<20, 10, 10, 5, p.initParams()...)))
	add("INIT/bundled", true, chunkBytes(wINIT, 0, wInitVal(0x77, 1<<20, 10, 10, 5)), chunkBytes(wCOOKIEACK, 0, nil))
	add("INIT/zero-tag", false, chunkBytes(wINIT, 0, wInitVal(0, 1<<20, 10, 10, 5)))
	add("INIT/small-rwnd", false, chunkBytes(wINIT, 0, wInitVal(9, 100, 10, 10, 5)))
	add("INIT/unknown-param-stop", false, chunkBytes(wINIT, 0, wInitVal(9, 1<<20, 10, 10, 5, wTLVBytes(0x0033, []byte{1, 2, 3, 4}, true))))
	// the same INITs in a packet with verification tag 0 (the only kind that gets past the
	// packet check), from the association's own ports
	addTag0 := func(name string, chunks ...[]byte) {
		w := wNewPacket(5000, 5000, 0)
		for _, c := range chunks {
			w.rawChunk(c)
		}
		out = append(out, hostilePkt{name: name, raw: w.bytes(true), ignore: false})
	}
	addTag0("INIT/vtag0", chunkBytes(wINIT, 0, wInitVal(0x99, 1<<20, 10, 10, 5, p.initParams()...)))
	addTag0("INIT/vtag0/zero-tag", chunkBytes(wINIT, 0, wInitVal(0, 1<<20, 10, 10, 5)))
	addTag0("INIT/vtag0/small-rwnd", chunkBytes(wINIT, 0, wInitVal(9, 100, 10, 10, 5)))
	addTag0("INIT/vtag0/no-streams", chunkBytes(wINIT, 0, wInitVal(9, 1<<20, 0, 0, 5)))
	// packets with port 0
	for _, pp := range [][2]uint16{{0, 5000}, {5000, 0}} {
		w := wNewPacket(pp[0], pp[1], p.aTag)
		w.rawChunk(chunkBytes(wHEARTBEAT, 0, wTLVBytes(1, []byte("12345678"), true)))
		out = append(out, hostilePkt{name: fmt.Sprintf("PORT0/%d-%d", pp[0], pp[1]), raw: w.bytes(true), ignore: true})
	}
	add("INIT-ACK", false, chunkBytes(wINITACK, 0, wInitVal(0x78, 1<<20, 10, 10, 6, wTLVBytes(7, []byte("other-cookie"), true))))
	add("INIT-ACK/nocookie", false, chunkBytes(wINITACK, 0, wInitVal(0x78, 1<<20, 10, 10, 6)))
	add("COOKIE-ECHO/wrong", false, chunkBytes(wCOOKIEECHO, 0, []byte("not-the-cookie")))
	add("COOKIE-ECHO/empty", false, chunkBytes(wCOOKIEECHO, 0, nil))
	add("COOKIE-ACK", false, chunkBytes(wCOOKIEACK, 0, nil))
	// shutdown family
	add("SHUTDOWN/ack-1", false, chunkBytes(wSHUTDOWN, 0, u32(ack-1)))
	add("SHUTDOWN/ack", false, chunkBytes(wSHUTDOWN, 0, u32(ack)))
	add("SHUTDOWN/all", false, chunkBytes(wSHUTDOWN, 0, u32(next-1)))
	add("SHUTDOWN/beyond", false, chunkBytes(wSHUTDOWN, 0, u32(next+3)))
	add("SHUTDOWN-ACK", false, chunkBytes(wSHUTDOWNACK, 0, nil))
	add("SHUTDOWN-COMPLETE", false, chunkBytes(wSHUTCOMPL, 0, nil))
	// heartbeat, error, unknown
	add("HEARTBEAT/0", true, chunkBytes(wHEARTBEAT, 0, nil))
	add("HEARTBEAT/8", true, chunkBytes(wHEARTBEAT, 0, wTLVBytes(1, []byte("12345678"), true)))
	add("HEARTBEAT/odd", true, chunkBytes(wHEARTBEAT, 0, wTLVBytes(1, []byte("12345"), true)))
	add("HEARTBEAT/wrongparam", true, chunkBytes(wHEARTBEAT, 0, wTLVBytes(7, []byte("1234"), true)))
	add("HBACK/overflow", true, chunkBytes(wHBACK, 0, wTLVBytes(1, []byte{0xff, 0xff, 0xff, 0xff, 0xff, 0xff, 0xff, 0xff}, true)))
	add("HBACK/future", true, chunkBytes(wHBACK, 0, wTLVBytes(1, []byte{0x7f, 0xff, 0xff, 0xff, 0xff, 0xff, 0xff, 0xff}, true)))
	add("HBACK/zero", true, chunkBytes(wHBACK, 0, wTLVBytes(1, make([]byte, 8), true)))
	add("ERROR", true, chunkBytes(wERROR, 0, wTLVBytes(13, []byte("oops"), true)))
	add("ERROR/badcause", true, chunkBytes(wERROR, 0, []byte{0, 13, 0, 2}))
	add("UNKNOWN/0x3f", true, chunkBytes(0x3f, 0, []byte{1, 2, 3, 4}))
	add("UNKNOWN/0xfe+DATA", true, chunkBytes(0xfe, 0, []byte{1, 2, 3, 4}), p.dataChunk(peerLast+1, 1, seq, 0, 53, 3, []byte("after-unknown"), 0))
	add("ABORT", false, chunkBytes(wABORT, 0, wTLVBytes(12, []byte("bye"), true)))
	add("ABORT/badcause", false, chunkBytes(wABORT, 0, []byte{0, 12, 0xff, 0xff}))
	// a genuine answer delivered a second time: the endpoint probes, the probe is answered, and
	// 300 ms later the network (or an observer on the path) delivers the same answer again
	if p.a != nil {
		out = append(out, hostilePkt{name: "HBACK/replayed", ignore: true, prep: func() []byte {
			if p.a.getState() != established {
				return nil
			}
			p.a.ActiveHeartbeat()
			var ack []byte
			for _, pk := range p.settle(time.Second) {
				if pk.dec == nil {
					continue
				}
				for _, c := range pk.dec.Chunks {
					if c.Typ == wHEARTBEAT && len(c.Params) == 1 {
						ack = p.pkt(chunkBytes(wHBACK, 0, wTLVBytes(1, c.Params[0].Val, true)))
					}
				}
			}
			if ack == nil {
				return nil
			}
			p.inject(ack)
			p.m.Sleep(300 * time.Millisecond)
			p.settle(time.Second)
			return ack
		}})
	}
	// bundles
	add("BUNDLE/sack+data", false, chunkBytes(wSACK, 0, wSackVal(ack, 1<<20, nil, nil)), p.dataChunk(peerLast+1, 1, seq, 0, 53, 3, []byte("bundled"), 0))
	return out
}

type c03Spec struct {
	base    e2Base
	picks   []int // indices into the hostile alphabet, injected in order
	mutants []int // layer A: indices into the mutant list (of sample sampleIdx)
	layerA  bool
}

// c03Scenario: build the base state, inject, run the oracles, continue honestly.
func c03Scenario(spec *c03Spec, names *[]string) *Scenario {
	return &Scenario{
		Name:    "hostile",
		Horizon: 400 * time.Second,
		Setup: func(m *Sim) {
			m.InvOn = true
			m.W.onQuiescent = m.invariantsAll
			m.W.delay = [2]time.Duration{time.Millisecond, time.Millisecond}
		},
		Body: func(m *Sim) {
			cfg := epCfg{Server: spec.base.server, NoInterleave: !spec.base.il, MTU: 228, RTOMax: 4000, InitTSN: 0xFFFFFFF5}
			p := newScripted(m, cfg, spec.base.il, false)
			if !spec.base.build(p) {
				m.Failf("e2.base", "could not build base state %s", spec.base.name)
				c03Teardown(m, p)
				return
			}
			honestBefore := map[uint16]int{}
			for sid, l := range p.readMu {
				honestBefore[sid] = len(*l)
			}
			var list []hostilePkt
			if spec.layerA {
				list = byteMutants(p)
			} else {
				list = hostileAlphabet(p)
			}
			idx := spec.picks
			if spec.layerA {
				idx = spec.mutants
			}
			for _, i := range idx {
				if i >= len(list) {
					continue
				}
				h := list[i]
				*names = append(*names, h.name)
				if h.prep != nil {
					if h.raw = h.prep(); h.raw == nil {
						continue
					}
				}
				var before string
				if p.a != nil {
					before = snapAssoc(p.a)
				}
				cursor := func() string {
					if p.a == nil {
						return ""
					}
					p.a.lock.RLock()
					defer p.a.lock.RUnlock()
					if st := p.a.streams[1]; st != nil {
						return fmt.Sprintf("ssn=%d mid=%d", st.reassemblyQueue.nextSSN, st.reassemblyQueue.nextMID)
					}
					return ""
				}
				cur0 := cursor()
				steps0 := m.S.Steps()
				p.inject(h.raw)
				if strings.HasSuffix(h.name, "/stale") || strings.Contains(h.name, "FWD/+2^31/") || (strings.Contains(h.name, "FWD/") && (strings.HasSuffix(h.name, "/none") || strings.HasSuffix(h.name, "/unknown"))) {
					// a skip report that names no sequence number of stream 1 ahead of its reader
					// leaves the reader's cursor where it is
					if cur1 := cursor(); cur0 != "" && cur1 != "" && cur1 != cur0 {
						m.Failf("hostile.cursor", "%s (base %s) moved the read cursor of stream 1 although it reports nothing ahead of it: %s -> %s; what the peer sends next on the stream is acknowledged and never readable", h.name, spec.base.name, cur0, cur1)
					}
				}
				if d := m.S.Steps() - steps0; d > 20000 {
					m.Failf("hostile.spin", "processing %s took %d scheduling steps", h.name, d)
				}
				if h.ignore && p.a != nil {
					if after := snapAssoc(p.a); after != before {
						m.Failf("hostile.state", "%s (base %s) must be ignored but changed the transfer state:\n before %s\n after  %s", h.name, spec.base.name, before, after)
					}
				}
				if !spec.layerA {
					// alphabet is relative to the live state: rebuild for the next pick
					list = hostileAlphabet(p)
				}
			}
			c03Continue(m, p, spec, honestBefore)
			c03Teardown(m, p)
		},
		Final: func(m *Sim, x *Exec) {
			generalVerdicts(m, x, true)
			if len(x.ArmedTimers) > 0 {
				m.Failf("timer-leak", "timers still armed after teardown: %v", x.ArmedTimers)
			}
		},
	}
}

// c03Continue: honest continuation (only if the association is still established).
func c03Continue(m *Sim, p *scripted, spec *c03Spec, honestBefore map[uint16]int) {
	a := p.a
	if a == nil {
		a = m.As[0]
	}
	if a == nil {
		// handshake bases: a client that was in COOKIE-WAIT / COOKIE-ECHOED when the hostile
		// packets arrived either gave up with an error, got established, or is still trying:
		// in the last case its handshake timer must still be alive (the packet it is waiting
		// for may simply have been lost), i.e. it retransmits INIT / COOKIE-ECHO
		if p.dialT != nil && !p.dialT.Done && !p.cfg.Server {
			ev0 := len(m.W.events)
			again := m.WaitUntil("handshake-retransmission", 10*time.Second, func() bool {
				if p.dialT.Done {
					return true
				}
				for _, ev := range m.W.events[ev0:] {
					if ev.Kind == "send" && ev.From == 0 && ev.Pkt.dec != nil && len(ev.Pkt.dec.Chunks) > 0 {
						if t := ev.Pkt.dec.Chunks[0].Typ; t == wINIT || t == wCOOKIEECHO {
							return true
						}
					}
				}
				return false
			})
			if !again {
				m.Failf("hostile.hang", "after the hostile packets the connecting endpoint neither finished nor retransmitted its handshake packet within 10 s: the connect call hangs (no handshake timer running)")
			}
		}
		return
	}
	p.a = a
	if p.unread != nil && a.getState() == established {
		// messages that had been received completely before the hostile packets arrived are
		// still delivered, intact and in order (hostile chunks may add garbage behind them)
		buf := make([]byte, 70000)
		var got []string
		for len(got) < len(p.unreadWant)+4 && p.unread.reassemblyQueue.isReadable() {
			n, _, err := p.unread.ReadSCTP(buf)
			if err != nil {
				break
			}
			got = append(got, string(buf[:n]))
		}
		// the honest messages form a subsequence of what is read (hostile chunks may have put
		// complete messages of their own on the stream, e.g. unordered ones, which come first)
		k := 0
		for _, g := range got {
			if k < len(p.unreadWant) && g == p.unreadWant[k] {
				k++
			}
		}
		if k < len(p.unreadWant) {
			m.Failf("hostile.destroyed", "message %d of stream 1 had been received completely (and acknowledged) before the hostile packets; afterwards it is no longer readable intact (%d messages read)", k, len(got))
		}
	}
	if a.getState() != established {
		m.Observe("state=%s", getAssociationStateString(a.getState()))
		return
	}
	// everything the endpoint had accepted is (re)transmitted and acknowledged
	p.ackAll()
	for i := 0; i < 12 && !drained(a); i++ {
		m.Sleep(1100 * time.Millisecond)
		p.settle(100 * time.Millisecond)
		p.ackAll()
	}
	if !drained(a) {
		m.Failf("hostile.continue", "after the hostile packets the endpoint never drains: buffered=%d snapshot %s", bufAmt(a), snapAssoc(a))
		return
	}
	// a fresh honest exchange in both directions on new streams (the hostile packets may have
	// completed the handshake themselves, with other parameters than the scripted peer offered:
	// the honest peer frames its data as that handshake negotiated)
	p.il = a.useInterleaving
	if p.fillGaps(62) {
		rs := p.startReader(60)
		if rs == nil {
			m.Failf("hostile.continue", "OpenStream failed after hostile packets")
			return
		}
		msg := p.sendMsg(60, 90, 2)
		p.settle(300 * time.Millisecond)
		m.mu.Lock()
		got := append([]rmsg(nil), *p.readMu[60]...)
		m.mu.Unlock()
		if len(got) != 1 || got[0].Data != string(msg) {
			m.Failf("hostile.continue", "honest message after the hostile packets was not delivered intact (%d reads; peerLast=%d tsn=%d)", len(got), a.payloadQueue.cumulativeTSN, p.tsn)
		}
	}
	ws, err := a.OpenStream(61, PayloadTypeWebRTCBinary)
	if err == nil {
		out := payload(61, 0, 300)
		if _, err := ws.WriteSCTP(out, PayloadTypeWebRTCBinary); err != nil {
			m.Failf("hostile.continue", "write after the hostile packets failed: %v", err)
		}
		p.settle(300 * time.Millisecond)
		p.ackAll()
		p.settle(300 * time.Millisecond)
		asm := p.assembled(61)
		if len(asm) != 1 || asm[0] != string(out) {
			m.Failf("hostile.continue", "message written after the hostile packets did not reach the wire intact")
		}
		if b := ws.BufferedAmount(); b != 0 {
			m.Failf("hostile.continue", "BufferedAmount=%d after everything was acknowledged", b)
		}
	}
	m.Observe("continued")
}

func c03Teardown(m *Sim, p *scripted) {
	if m.As[0] != nil {
		m.As[0].Close()
	}
	(&wconn{w: m.W, id: 0}).Close()
	if p.dialT != nil {
		m.WaitUntil("dial-done", 2*time.Second, func() bool { return p.dialT.Done })
	}
	ts := append([]*vsched.Thread(nil), p.rdT...)
	for _, t := range ts {
		t := t
		m.WaitUntil("reader-done", 2*time.Second, func() bool { return t.Done })
	}
}

// byteMutants: layer A. Valid sample packets relative to the live state, mutated bytewise
// with a recomputed checksum so that they reach the parsers.
func byteMutants(p *scripted) []hostilePkt {
	var ack, peerLast uint32
	if p.a != nil {
		ack, peerLast = p.a.cumulativeTSNAckPoint, p.a.payloadQueue.cumulativeTSN
	} else {
		ack, peerLast = p.aTSN0-1, p.tsn0-1
	}
	seq := uint32(p.ssn[1])
	if p.il {
		seq = p.mid[1]
	}
	samples := []struct {
		n string
		b []byte
	}{
		{"DATA", p.dataChunk(peerLast+1, 1, seq, 0, 53, 3, []byte("abcdefg"), 0)},
		{"SACK", chunkBytes(wSACK, 0, wSackVal(ack, 1<<20, []wGap{{1, 1}, {3, 4}}, []uint32{ack}))},
		{"INIT", chunkBytes(wINIT, 0, wInitVal(0x77, 1<<20, 10, 10, 5, p.initParams()...))},
		{"INITACK", chunkBytes(wINITACK, 0, wInitVal(0x77, 1<<20, 10, 10, 5, append([][]byte{wTLVBytes(7, []byte("cookie-x"), true)}, p.initParams()...)...))},
		{"COOKIEECHO", chunkBytes(wCOOKIEECHO, 0, []byte("cookie-cookie"))},
		{"HEARTBEAT", chunkBytes(wHEARTBEAT, 0, wTLVBytes(1, []byte("12345678"), true))},
		{"HBACK", chunkBytes(wHBACK, 0, wTLVBytes(1, []byte("12345678"), true))},
		{"ABORT", chunkBytes(wABORT, 0, cat(wTLVBytes(13, []byte("viol"), true), wTLVBytes(12, []byte("user!"), true)))},
		{"ERROR", chunkBytes(wERROR, 0, wTLVBytes(6, []byte{9, 9, 9, 9}, true))},
		{"SHUTDOWN", chunkBytes(wSHUTDOWN, 0, u32(ack))},
		{"RECONFIG", chunkBytes(wRECONFIG, 0, cat(wTLVBytes(13, cat(u32(p.tsn0), u32(0), u32(peerLast), u16(1), u16(2)), true), wTLVBytes(16, cat(u32(5), u32(1)), true)))},
		{"FWDTSN", chunkBytes(wFWDTSN, 0, wFwdVal(peerLast+1, []wFwdStream{{SID: 1, SSN: 1}}))},
		{"IFWDTSN", chunkBytes(wIFWDTSN, 0, wIFwdVal(peerLast+1, []wFwdStream{{SID: 1, MID: 1}, {SID: 1, MID: 2, Unordered: true}}))},
		{"BUNDLE", cat(chunkBytes(wSACK, 0, wSackVal(ack, 1<<20, nil, nil)), p.dataChunk(peerLast+1, 1, seq, 0, 53, 3, []byte("xy"), 0))},
	}
	var out []hostilePkt
	mk := func(name string, chunk []byte) {
		w := wNewPacket(5000, 5000, p.aTag)
		w.rawChunk(chunk)
		out = append(out, hostilePkt{name: name, raw: w.bytes(true)})
	}
	for _, s := range samples {
		b := s.b
		// every proper prefix
		for l := 0; l < len(b); l++ {
			mk(fmt.Sprintf("%s/prefix%d", s.n, l), b[:l])
		}
		// every consistent truncation: chunk length field rewritten, padding restored
		if len(s.n) > 0 && s.n != "BUNDLE" {
			for l := 4; l < len(b); l++ {
				c := append([]byte(nil), b[:l]...)
				binary.BigEndian.PutUint16(c[2:], uint16(l))
				for len(c)%4 != 0 {
					c = append(c, 0)
				}
				mk(fmt.Sprintf("%s/trunc%d", s.n, l), c)
			}
			// truncate the last TLV consistently as well (chunks that carry parameters / causes)
			if d, err := wDecode(wNewPacket(1, 1, 1).rawChunk(b).bytes(true)); err == nil && len(d.Chunks) == 1 {
				ch := d.Chunks[0]
				tl := ch.Params
				if len(ch.Causes) > 0 {
					tl = ch.Causes
				}
				if n := len(tl); n > 0 {
					lastLen := 4 + len(tl[n-1].Val)
					start := int(ch.Len) - lastLen
					if start >= 4 && start+4 <= len(b) {
						for k := 0; k < lastLen; k++ {
							c := append([]byte(nil), b[:start+max(k, 4)]...)
							if k < 4 {
								c = c[:start+4]
							}
							binary.BigEndian.PutUint16(c[start+2:], uint16(k))
							binary.BigEndian.PutUint16(c[2:], uint16(len(c)))
							for len(c)%4 != 0 {
								c = append(c, 0)
							}
							mk(fmt.Sprintf("%s/tlvtrunc%d", s.n, k), c)
						}
					}
				}
			}
		}
		// every 16-bit length-looking field position set to hostile values (offset 2 = chunk length, then every even offset)
		for off := 2; off+1 < len(b); off += 2 {
			true16 := binary.BigEndian.Uint16(b[off:])
			for _, v := range []uint16{0, 1, 3, 4, true16 - 1, true16 + 1, true16 + 4, 0xFFFF} {
				if v == true16 {
					continue
				}
				c := append([]byte(nil), b...)
				binary.BigEndian.PutUint16(c[off:], v)
				mk(fmt.Sprintf("%s/u16@%d=%d", s.n, off, v), c)
			}
		}
		// every byte set to 0x00 and 0xFF
		for off := 0; off < len(b); off++ {
			for _, v := range []byte{0x00, 0xFF} {
				if b[off] == v {
					continue
				}
				c := append([]byte(nil), b...)
				c[off] = v
				mk(fmt.Sprintf("%s/byte@%d=%02x", s.n, off, v), c)
			}
		}
	}
	return out
}

func propC03(j *Job) {
	for _, ahead := range []uint32{5, 1<<31 - 1, 1 << 31} {
		j.Explore(fmt.Sprintf("RH/ahead%d", ahead), reconfigFloodScenario(false, ahead), Budget{}, nil)
	}
	for _, il := range []bool{false, true} {
		for _, what := range []string{"stale-fwd", "abort"} {
			j.Explore(fmt.Sprintf("AT/il%v/%s", il, what), ackTimerRaceScenario(il, what), Budget{D: map[bool]int{false: 2, true: 3}[j.Thorough()]}, nil)
		}
	}
	for _, il := range []bool{false, true} {
		for _, start := range []uint32{0, 7, 0xFFFF, 0x7FFF, 0xFFFFFFFE} {
			for _, v := range []string{"far-first", "far-middle", "far-unread", "unordered"} {
				if v == "unordered" && !il {
					continue
				}
				j.Explore(fmt.Sprintf("HS/il%v/start%d/%s", il, start, v), halfSpaceScenario(il, start, v), Budget{}, nil)
			}
		}
	}
	bases := e2Bases()
	// size of the alphabets (state independent count): build once against a dummy
	dummy := &scripted{ssn: map[uint16]uint16{}, mid: map[uint16]uint32{}, tsn0: 5, aTSN0: 9}
	nAlpha := len(hostileAlphabet(dummy))
	dummy.il = true
	if n := len(hostileAlphabet(dummy)); n > nAlpha {
		nAlpha = n
	}
	nAlpha += 2 // entries that exist only against a live association (answer to its own reset request, replayed HEARTBEAT-ACK)
	nMut := len(byteMutants(dummy))
	j.extra("alphabet", nAlpha)
	j.extra("byte_mutants", nMut)
	// Layer B depth 1: every hostile packet in every base state
	for _, b := range bases {
		for i := 0; i < nAlpha; i++ {
			names := &[]string{}
			spec := &c03Spec{base: b, picks: []int{i}}
			j.Explore(fmt.Sprintf("H1/%s/%d", b.name, i), c03Scenario(spec, names), Budget{}, nil)
			if j.capped() {
				return
			}
		}
	}
	// Layer B depth 2: all ordered pairs in the established bases (quick: a stride of the pairs)
	stride := 7
	if j.Thorough() {
		stride = 1
	}
	n := 0
	for _, b := range bases {
		if !(len(b.name) > 3 && b.name[:3] == "est") && !j.Thorough() {
			continue
		}
		for i := 0; i < nAlpha; i++ {
			for k := 0; k < nAlpha; k++ {
				n++
				if n%stride != 0 {
					continue
				}
				names := &[]string{}
				spec := &c03Spec{base: b, picks: []int{i, k}}
				j.Explore(fmt.Sprintf("H2/%s/%d-%d", b.name, i, k), c03Scenario(spec, names), Budget{}, nil)
				if j.capped() {
					return
				}
			}
		}
	}
	// Layer A: byte-level mutants, 12 per execution, in four base states
	batch := 12
	for _, b := range bases {
		switch b.name {
		case "est-inflight/DATA", "est-reasm/IDATA", "cookieWait/DATA", "shutdownSent/IDATA", "closed-server/IDATA":
		default:
			continue
		}
		if !j.Thorough() && b.name != "est-inflight/DATA" && b.name != "est-reasm/IDATA" {
			continue
		}
		for start := 0; start < nMut; start += batch {
			var idx []int
			for i := start; i < start+batch && i < nMut; i++ {
				idx = append(idx, i)
			}
			names := &[]string{}
			spec := &c03Spec{base: b, mutants: idx, layerA: true}
			j.Explore(fmt.Sprintf("A/%s/%d", b.name, start), c03Scenario(spec, names), Budget{}, nil)
			if j.capped() {
				return
			}
		}
	}
}

// ackTimerRaceScenario: a packet whose handling touches the delayed-acknowledgement timer (an
// out-of-date FORWARD-TSN is answered at once: the timer is stopped; an ABORT closes it) arrives
// in the very instant that timer expires.  Under every schedule with at most D deviations
// the endpoint handles both and stays responsive (no hang between the read loop, which holds
// the association lock, and the timer's callback).
func ackTimerRaceScenario(il bool, what string) *Scenario {
	return &Scenario{
		Name:    "ack-timer-race",
		Horizon: 60 * time.Second,
		Setup:   func(m *Sim) { m.W.delay = [2]time.Duration{time.Millisecond, time.Millisecond} },
		Body: func(m *Sim) {
			cfg := epCfg{NoInterleave: !il, MTU: 228, RTOMax: 4000, InitTSN: 0xFFFFFFF5}
			p := newScripted(m, cfg, il, false)
			if !p.connectClient() {
				m.Failf("e2.base", "handshake with the scripted peer failed")
				c03Teardown(m, p)
				return
			}
			p.a = m.As[0]
			rs := p.startReader(1)
			// two more callers blocked in a read of the same stream: an ABORT releases them all
			var extra []*vsched.Thread
			if rs != nil && what == "abort" {
				for i := 0; i < 2; i++ {
					extra = append(extra, m.Go(fmt.Sprintf("extra-read%d", i), func() {
						buf := make([]byte, 100)
						for {
							if _, _, err := rs.ReadSCTP(buf); err != nil {
								return
							}
						}
					}))
				}
			}
			m.Sleep(2 * time.Second)
			// one DATA chunk: the acknowledgement is delayed by 200 ms
			seq := uint32(p.ssn[1])
			if p.il {
				seq = p.mid[1]
			}
			m.W.inject(0, p.pkt(p.dataChunk(p.tsn, 1, seq, 0, 53, 3, []byte("one"), 0)))
			p.tsn++
			m.Sleep(200 * time.Millisecond)
			switch what {
			case "stale-fwd":
				if p.il {
					m.W.inject(0, p.pkt(chunkBytes(wIFWDTSN, 0, wIFwdVal(p.tsn-5, nil))))
				} else {
					m.W.inject(0, p.pkt(chunkBytes(wFWDTSN, 0, wFwdVal(p.tsn-5, nil))))
				}
			case "abort":
				m.W.inject(0, p.pkt(chunkBytes(wABORT, 0, nil)))
			}
			p.settle(2 * time.Second)
			if what == "stale-fwd" {
				// still responsive: a heartbeat is answered
				out := p.inject(p.pkt(chunkBytes(wHEARTBEAT, 0, wTLVBytes(1, []byte("12345678"), true))))
				ok := false
				for _, o := range out {
					if o.dec != nil {
						for _, c := range o.dec.Chunks {
							if c.Typ == wHBACK {
								ok = true
							}
						}
					}
				}
				if !ok {
					m.Failf("hostile.hang", "after an out-of-date FORWARD-TSN that arrived as the delayed-acknowledgement timer expired the endpoint does not answer a HEARTBEAT any more")
				}
			}
			for _, t := range extra {
				if !t.Done {
					m.Failf("hostile.hang", "three callers were blocked in a read of stream 1 when the ABORT arrived: %s has not returned 2 s later", t.Name)
				}
			}
			m.Observe("%s", what)
			c03Teardown(m, p)
		},
		Final: func(m *Sim, x *Exec) { generalVerdicts(m, x, true) },
	}
}

// halfSpaceScenario: a chunk whose sequence number is exactly half the number space away from the
// reader's cursor has no order against the messages the reader waits for.  Whatever the endpoint
// does with it, the messages at the cursor (sent before or after it) are still handed to the reader.
//
//	far-first:  far, m0, m1        far-middle: m1, far, m0
//	unordered:  (I-DATA) an unordered message identifier is skipped by an I-FORWARD-TSN; a new
//	            unordered message exactly 2^31 after it is a new message and is delivered
func halfSpaceScenario(il bool, start uint32, variant string) *Scenario {
	return &Scenario{
		Name:    "half-space",
		Horizon: 60 * time.Second,
		Setup:   func(m *Sim) { m.W.delay = [2]time.Duration{time.Millisecond, time.Millisecond} },
		Body: func(m *Sim) {
			cfg := epCfg{NoInterleave: !il, MTU: 1191, RTOMax: 4000, InitTSN: 0xFFFFFFF5}
			p := newScripted(m, cfg, il, false)
			if !p.connectClient() {
				m.Failf("e2.base", "handshake with the scripted peer failed")
				c03Teardown(m, p)
				return
			}
			p.a = m.As[0]
			var st *Stream
			if variant == "far-unread" {
				// no reader yet: what arrives stays queued
				st, _ = p.a.OpenStream(1, PayloadTypeWebRTCBinary)
				if st != nil {
					m.streamsSeen = append(m.streamsSeen, st)
					p.readMu[1] = &[]rmsg{}
				}
			} else {
				st = p.startReader(1)
			}
			if st == nil {
				m.Failf("e2.base", "could not open stream 1")
				c03Teardown(m, p)
				return
			}
			st.lock.Lock()
			st.reassemblyQueue.nextSSN = uint16(start)
			st.reassemblyQueue.nextMID = start
			st.lock.Unlock()
			half := start + 1<<15
			if il {
				half = start + 1<<31
			}
			t := p.tsn
			var want []string
			switch variant {
			case "far-first", "far-middle":
				far := p.pkt(p.dataChunk(t+2, 1, half, 0, 53, 3, []byte("half-space-ahead"), 0))
				m0 := p.pkt(p.dataChunk(t, 1, start, 0, 53, 3, []byte("at-the-cursor"), 0))
				m1 := p.pkt(p.dataChunk(t+1, 1, start+1, 0, 53, 3, []byte("behind-it"), 0))
				if variant == "far-first" {
					p.inject(far)
					p.inject(m0)
					p.inject(m1)
				} else {
					p.inject(m1)
					p.inject(far)
					p.inject(m0)
				}
				want = []string{"at-the-cursor", "behind-it"}
			case "far-unread":
				// m0 is complete and unread when the first fragment of the far message arrives, m1
				// follows; the application reads afterwards
				p.inject(p.pkt(p.dataChunk(t, 1, start, 0, 53, 3, []byte("at-the-cursor"), 0)))
				p.inject(p.pkt(p.dataChunk(t+1, 1, half, 0, 53, 2, []byte("half-space-ahead"), 0)))
				p.inject(p.pkt(p.dataChunk(t+2, 1, start+1, 0, 53, 3, []byte("behind-it"), 0)))
				want = []string{"at-the-cursor", "behind-it"}
				buf := make([]byte, 2000)
				for i := 0; i < 4 && st.reassemblyQueue.isReadable(); i++ {
					n, ppi, err := st.ReadSCTP(buf)
					if err != nil {
						break
					}
					m.mu.Lock()
					*p.readMu[1] = append(*p.readMu[1], rmsg{Data: string(buf[:n]), PPI: ppi})
					m.mu.Unlock()
				}
			case "unordered":
				// TSN t is abandoned by the peer: unordered message `start` of stream 1 is skipped
				p.inject(p.pkt(chunkBytes(wIFWDTSN, 0, wIFwdVal(t, []wFwdStream{{SID: 1, MID: start, Unordered: true}}))))
				p.inject(p.pkt(p.dataChunk(t+1, 1, start+1<<31, 0, 53, 7, []byte("new-unordered"), 0)))
				want = []string{"new-unordered"}
			}
			ok := m.WaitUntil("half-space-read", 5*time.Second, func() bool {
				m.mu.Lock()
				defer m.mu.Unlock()
				k := 0
				for _, r := range *p.readMu[1] {
					if k < len(want) && r.Data == want[k] {
						k++
					}
				}
				return k == len(want)
			})
			if !ok {
				m.mu.Lock()
				var got []string
				for _, r := range *p.readMu[1] {
					got = append(got, r.Data)
				}
				m.mu.Unlock()
				m.Failf("hostile.destroyed", "%s (cursor %d, interleaving %v): the messages %q were sent by the peer and acknowledged up to TSN %d (sent: %d..%d), but the reader of stream 1 got %q: a chunk exactly half the number space away from the cursor has taken the stream apart", variant, start, il, want, p.a.peerLastTSN(), t, t+2, got)
			}
			m.Observe("ok=%v cum=%d", ok, p.a.peerLastTSN()-t)
			c03Teardown(m, p)
		},
		Final: func(m *Sim, x *Exec) { generalVerdicts(m, x, true) },
	}
}

// reconfigFloodScenario: the peer sends far more outgoing reset requests than the endpoint is
// willing to keep (1000), each for a last TSN it cannot have reached yet - `ahead` TSNs beyond the
// cumulative point, including exactly half the number space.  The number kept stays bounded, and
// so does what one later DATA chunk triggers.
func reconfigFloodScenario(il bool, ahead uint32) *Scenario {
	return &Scenario{
		Name:     "reconfig-flood",
		Horizon:  120 * time.Second,
		MaxSteps: 2000000,
		Setup:    func(m *Sim) { m.W.delay = [2]time.Duration{time.Millisecond, time.Millisecond} },
		Body: func(m *Sim) {
			cfg := epCfg{NoInterleave: !il, MTU: 1191, RTOMax: 4000, InitTSN: 0xFFFFFFF5}
			p := newScripted(m, cfg, il, false)
			if !p.connectClient() {
				m.Failf("e2.base", "handshake with the scripted peer failed")
				c03Teardown(m, p)
				return
			}
			p.a = m.As[0]
			peerLast := p.a.peerLastTSN()
			const total = 3000
			rsn := p.tsn0
			for sent := 0; sent < total; {
				// 60 requests per packet (each 20 bytes)
				var chunks [][]byte
				for k := 0; k < 60 && sent < total; k++ {
					v := cat(u32(rsn), u32(0), u32(peerLast+ahead), u16(uint16(100+sent%50)))
					chunks = append(chunks, chunkBytes(wRECONFIG, 0, wTLVBytes(13, v, true)))
					rsn++
					sent++
				}
				m.W.inject(0, p.pkt(chunks...))
			}
			p.settle(2 * time.Second)
			kept := len(p.a.reconfigRequests)
			if kept > maxReconfigRequests {
				m.Failf("hostile.unbounded", "%d outgoing reset requests for a last TSN %d ahead of the cumulative point were sent; the endpoint keeps %d of them (its own bound is %d)", total, ahead, kept, maxReconfigRequests)
			}
			ev0 := len(m.W.events)
			seq := uint32(p.ssn[1])
			if p.il {
				seq = p.mid[1]
			}
			p.inject(p.pkt(p.dataChunk(p.tsn, 1, seq, 0, 53, 3, []byte("x"), 0)))
			n := 0
			for _, ev := range m.W.events[ev0:] {
				if ev.Kind == "send" && ev.From == 0 {
					n++
				}
			}
			if n > maxReconfigRequests+10 {
				m.Failf("hostile.unbounded", "one DATA chunk after the flood is answered with %d packets", n)
			}
			m.Observe("kept=%d answered=%d", kept, n)
			c03Teardown(m, p)
		},
		Final: func(m *Sim, x *Exec) { generalVerdicts(m, x, true) },
	}
}
