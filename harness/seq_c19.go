package sctp

import (
	"fmt"
	"math"
)

func init() { register("C19", propC19) }

func propC19(j *Job) {
	c19RTO(j)
	c19Backoff(j)
	c19EndToEnd(j)
}

// all sequences of RTT samples up to a depth: RTO stays within [1000, rtoMax] and finite
func c19RTO(j *Job) {
	samples := []float64{0, 1e-3, 1, 200, 999, 1000, 1001, 5000, 59999, 60000, 60001, 1e9, 1e300}
	depth := 4
	if j.Thorough() {
		depth = 6
	}
	item := 0
	for _, rtoMax := range []float64{1000, 4000, 60000, 1e6} {
		for first := range samples {
			item++
			if !j.mine(item) {
				continue
			}
			caseName := fmt.Sprintf("rto/max%v", rtoMax)
			var rec func(path []float64)
			rec = func(path []float64) {
				mgr := newRTOManager(rtoMax)
				for _, s := range path {
					mgr.setNewRTT(s)
				}
				rto := mgr.getRTO()
				j.Stats.Steps++
				j.Stats.NewStates++
				if math.IsNaN(rto) || math.IsInf(rto, 0) || rto < rtoMin || rto > rtoMax {
					j.failSeq("rto.bounds", caseName, fmt.Sprintf("RTO %v outside [%v,%v] after samples %v", rto, rtoMin, rtoMax, path), path)
					return
				}
				if len(path) >= depth {
					return
				}
				for _, s := range samples {
					rec(append(append([]float64{}, path...), s))
				}
			}
			rec([]float64{samples[first]})
			j.Stats.Cases++
		}
	}
	// default rtoMax (0 => 60 s)
	if j.mine(0) {
		mgr := newRTOManager(0)
		if mgr.getRTO() != 1000 {
			j.failSeq("rto.initial", "rto/default", fmt.Sprintf("initial RTO %v", mgr.getRTO()), nil)
		}
		mgr.setNewRTT(1e12)
		if mgr.getRTO() != 60000 {
			j.failSeq("rto.bounds", "rto/default", fmt.Sprintf("default max: RTO %v after huge sample", mgr.getRTO()), nil)
		}
	}
	j.sample(map[string]any{"engine": "seq", "what": "all RTT sample sequences", "alphabet": fmt.Sprint(samples), "depth": depth})
}

// calculateNextTimeout(rto, n, max) == min(rto*2^n, max), monotone in n
func c19Backoff(j *Job) {
	if !j.mine(1) {
		return
	}
	for _, rtoMax := range []float64{1000, 4000, 60000, 1e6} {
		for _, rto := range []float64{1000, 1001, 1500, 3000, 4000, 59999, 60000} {
			if rto > rtoMax {
				continue
			}
			prev := 0.0
			for n := uint(0); n <= 70; n++ {
				got := calculateNextTimeout(rto, n, rtoMax)
				want := math.Min(rto*math.Pow(2, float64(n)), rtoMax)
				j.Stats.Steps++
				j.Stats.NewStates++
				if got != want {
					j.failSeq("backoff.value", "backoff", fmt.Sprintf("calculateNextTimeout(%v,%d,%v)=%v want %v", rto, n, rtoMax, got, want), nil)
				}
				if got < prev {
					j.failSeq("backoff.monotone", "backoff", fmt.Sprintf("calculateNextTimeout(%v,%d,%v)=%v < previous %v", rto, n, rtoMax, got, prev), nil)
				}
				prev = got
			}
		}
	}
}
