package sctp

import (
	"strings"
	"context"
	"fmt"
	"time"

	"github.com/pion/sctp/internal/vsched"
)

// ---------------------------------------------------------------------------------
// (1) timer object under the scheduler: start / stop / close against the expiry goroutine

type recObserver struct {
	m        *Sim
	timeouts []time.Duration
	ns       []uint
	failures []time.Duration
}

func (o *recObserver) onRetransmissionTimeout(id int, n uint) {
	o.m.mu.Lock()
	o.timeouts = append(o.timeouts, o.m.S.Now())
	o.ns = append(o.ns, n)
	o.m.mu.Unlock()
}

func (o *recObserver) onRetransmissionFailure(id int) {
	o.m.mu.Lock()
	o.failures = append(o.failures, o.m.S.Now())
	o.m.mu.Unlock()
}

// timerProgram: a script of operations at virtual instants; the expiry goroutine races with it.
type timerOp struct {
	at time.Duration
	op string // start stop close
}

func timerScenario(prog []timerOp, maxRetrans uint, rtoMax float64) *Scenario {
	return &Scenario{
		Name:    "rtxtimer",
		Horizon: 120 * time.Second,
		Setup:   func(m *Sim) { m.S.SuspendTimers = true },
		Body: func(m *Sim) {
			obs := &recObserver{m: m}
			tm := newRTXTimer(7, obs, maxRetrans, rtoMax)
			type span = struct{ from, to time.Duration } // running between from and to (to<0: still running)
			var spans []span
			running := false
			closed := false
			for _, op := range prog {
				if d := op.at - m.S.Now(); d > 0 {
					m.Sleep(d)
				}
				switch op.op {
				case "start":
					ok := tm.start(1000)
					if ok != (!running && !closed) && !(running && len(obs.failures) > 0) {
						// (after a reported failure the timer is stopped again)
					}
					if ok && closed {
						m.viol = append(m.viol, Violation{"timer.closed", fmt.Sprintf("start succeeded on a closed timer (program %v)", prog)})
					}
					if ok {
						running = true
						spans = append(spans, span{m.S.Now(), -1})
					}
				case "stop":
					tm.stop()
					if running {
						spans[len(spans)-1].to = m.S.Now()
					}
					running = false
				case "close":
					tm.close()
					if running {
						spans[len(spans)-1].to = m.S.Now()
					}
					running = false
					closed = true
				}
				m.S.Yield()
			}
			// let everything that is going to fire, fire
			m.Sleep(40 * time.Second)
			tm.close()
			m.Sleep(10 * time.Second)
			m.mu.Lock()
			defer m.mu.Unlock()
			// oracle: expected expiries of every span: from + rto*(2^k - 1) capped, while the span lasts
			var want []time.Duration
			var wantN []uint
			end := m.S.Now()
			failWant := 0
			for _, sp := range spans {
				to := sp.to
				if to < 0 {
					to = end - 10*time.Second
				}
				t := sp.from
				for k := uint(0); ; k++ {
					step := time.Duration(calcBackoff(1000, k, rtoMax)) * time.Millisecond
					t += step
					if t > to || (t == to && sp.to >= 0) {
						break
					}
					if maxRetrans != 0 && k+1 > maxRetrans {
						failWant++
						break
					}
					want = append(want, t)
					wantN = append(wantN, k+1)
				}
			}
			// expiries that coincide with a stop are legitimately either way: compare leniently on those
			got := obs.timeouts
			gi, wi := 0, 0
			for gi < len(got) || wi < len(want) {
				switch {
				case gi < len(got) && wi < len(want) && got[gi] == want[wi]:
					if obs.ns[gi] != wantN[wi] {
						m.viol = append(m.viol, Violation{"timer.count", fmt.Sprintf("expiry at %v reported n=%d, want %d (program %v)", got[gi], obs.ns[gi], wantN[wi], prog)})
					}
					gi++
					wi++
				case gi < len(got) && coincidesWithStop(got[gi], spans):
					gi++ // an expiry racing with stop()/close() in the same instant may still be reported
				case wi < len(want):
					m.viol = append(m.viol, Violation{"timer.missing", fmt.Sprintf("no expiry at %v (n=%d); got %v, want %v (program %v)", want[wi], wantN[wi], got, want, prog)})
					return
				default:
					m.viol = append(m.viol, Violation{"timer.spurious", fmt.Sprintf("unexpected expiry at %v; got %v, want %v (program %v)", got[gi], got, want, prog)})
					return
				}
			}
			if maxRetrans == 0 && len(obs.failures) > 0 {
				m.viol = append(m.viol, Violation{"timer.failure", "failure reported by a timer without retry limit"})
			}
			if maxRetrans != 0 && len(obs.failures) != failWant {
				m.viol = append(m.viol, Violation{"timer.failure", fmt.Sprintf("%d failures reported, want %d (program %v)", len(obs.failures), failWant, prog)})
			}
			m.obs = append(m.obs, fmt.Sprintf("%v", got))
		},
		Final: func(m *Sim, x *Exec) {
			generalVerdicts(m, x, true)
			if len(x.ArmedTimers) > 0 {
				m.Failf("timer-leak", "timer still armed after close")
			}
		},
	}
}

// ackObserver records the delayed-ack expiries.
type ackObserver struct {
	m     *Sim
	fired []time.Duration
}

func (o *ackObserver) onAckTimeout() {
	o.m.mu.Lock()
	o.fired = append(o.fired, o.m.S.Now())
	o.m.mu.Unlock()
}

// ackTimerScenario: the delayed-ack timer object under the same start/stop/close programs,
// with stops placed exactly on the 200 ms expiry instant.
func ackTimerScenario(prog []timerOp) *Scenario {
	return &Scenario{
		Name:    "acktimer",
		Horizon: 60 * time.Second,
		Setup:   func(m *Sim) { m.S.SuspendTimers = true },
		Body: func(m *Sim) {
			obs := &ackObserver{m: m}
			tm := newAckTimer(obs)
			type span = struct{ from, to time.Duration }
			var spans []span
			running, closed := false, false
			endSpan := func() {
				if running {
					spans[len(spans)-1].to = m.S.Now()
				}
				running = false
			}
			for _, op := range prog {
				if d := op.at - m.S.Now(); d > 0 {
					m.Sleep(d)
				}
				// a span ends by itself when its expiry has been delivered
				if running && m.S.Now() > spans[len(spans)-1].from+ackInterval {
					spans[len(spans)-1].to = spans[len(spans)-1].from + ackInterval
					running = false
				}
				switch op.op {
				case "start":
					if tm.start() {
						if running {
							// started although our model says running: the expiry of the previous
							// span was delivered in this very instant
							spans[len(spans)-1].to = m.S.Now()
						}
						if !closed {
							running = true
							spans = append(spans, span{m.S.Now(), -1})
						} else {
							m.viol = append(m.viol, Violation{"acktimer.closed", "start succeeded on a closed timer"})
						}
					}
				case "stop":
					tm.stop()
					endSpan()
				case "close":
					tm.close()
					endSpan()
					closed = true
				}
				m.S.Yield()
			}
			m.Sleep(2 * time.Second)
			tm.close()
			m.Sleep(time.Second)
			m.mu.Lock()
			defer m.mu.Unlock()
			// every span that lasted longer than the interval fires exactly once, at from+200ms;
			// a span stopped exactly at its expiry instant may or may not fire
			var must, may []time.Duration
			for _, sp := range spans {
				exp := sp.from + ackInterval
				switch {
				case sp.to < 0 || sp.to > exp:
					must = append(must, exp)
				case sp.to == exp:
					may = append(may, exp)
				}
			}
			got := append([]time.Duration(nil), obs.fired...)
			for _, w := range must {
				found := false
				for i, g := range got {
					if g == w {
						got = append(got[:i], got[i+1:]...)
						found = true
						break
					}
				}
				if !found {
					m.viol = append(m.viol, Violation{"acktimer.missing", fmt.Sprintf("the delayed-ack timer started at %v never fired at %v; fired %v (program %v)", w-ackInterval, w, obs.fired, prog)})
					return
				}
			}
			for _, g := range got {
				ok := false
				for i, w := range may {
					if g == w {
						may = append(may[:i], may[i+1:]...)
						ok = true
						break
					}
				}
				if !ok {
					m.viol = append(m.viol, Violation{"acktimer.spurious", fmt.Sprintf("unexpected delayed-ack expiry at %v; fired %v (program %v)", g, obs.fired, prog)})
					return
				}
			}
			m.obs = append(m.obs, fmt.Sprintf("%v", obs.fired))
		},
		Final: func(m *Sim, x *Exec) {
			generalVerdicts(m, x, true)
			if len(x.ArmedTimers) > 0 {
				m.Failf("timer-leak", "ack timer still armed after close")
			}
		},
	}
}

func calcBackoff(rto float64, n uint, rtoMax float64) float64 {
	if rtoMax == 0 {
		rtoMax = 60000
	}
	v := rto
	for i := uint(0); i < n; i++ {
		v *= 2
		if v >= rtoMax {
			return rtoMax
		}
	}
	if v > rtoMax {
		v = rtoMax
	}
	return v
}

func coincidesWithStop(t time.Duration, spans []struct{ from, to time.Duration }) bool {
	for _, sp := range spans {
		if sp.to == t {
			return true
		}
	}
	return false
}

// ---------------------------------------------------------------------------------
// (2) end-to-end timer laws

type c19Spec struct {
	kind   string // data-blackhole shutdown-blackhole reconfig-blackhole heartbeat karn ackdelay
	rtoMax float64
	il     bool
	delay  time.Duration
}

func c19Scenario(spec *c19Spec) *Scenario {
	var facts *wireFacts
	return &Scenario{
		Name:    "timers",
		Horizon: 2000 * time.Second,
		Setup: func(m *Sim) {
			if spec.delay > 0 {
				m.W.delay = [2]time.Duration{spec.delay, spec.delay}
			} else if spec.kind == "heartbeat0" {
				m.W.delay = [2]time.Duration{0, 0}
			}
			m.W.faults = faultSet{Drop: true, Dup: true}
		},
		Body: func(m *Sim) {
			a := epCfg{NoInterleave: !spec.il, MTU: 228, RTOMax: spec.rtoMax, InitTSN: 0xFFFFFFFD}
			b := epCfg{Server: true, NoInterleave: !spec.il, MTU: 228, RTOMax: spec.rtoMax, InitTSN: 9}
			if !m.Connect(a, b) {
				m.Failf("connect", "handshake failed")
				m.closeFailedTransports()
				m.CloseBoth()
				return
			}
			sa, _ := m.As[0].OpenStream(1, PayloadTypeWebRTCBinary)
			sb, _ := m.As[1].OpenStream(1, PayloadTypeWebRTCBinary)
			m.streamsSeen = append(m.streamsSeen, sa, sb)
			isType := func(p *wpkt, typ uint8) bool {
				if p.dec == nil {
					return false
				}
				for _, c := range p.dec.Chunks {
					if c.Typ == typ || (typ == wDATA && c.Typ == wIDATA) {
						return true
					}
				}
				return false
			}
			run := 130 * time.Second
			if spec.rtoMax == 0 {
				run = 900 * time.Second
			}
			switch spec.kind {
			case "data-blackhole":
				m.W.killFn = func(p *wpkt) bool { return p.from == 0 && isType(p, wDATA) }
				sa.WriteSCTP(payload(1, 0, 50), PayloadTypeWebRTCBinary)
				m.Sleep(run)
				if spec.rtoMax != 0 && spec.rtoMax < 1000 {
					// a round-trip sample: the RTO computed from it is bounded like the initial one
					m.W.killFn = nil
					m.As[0].ActiveHeartbeat()
					m.Sleep(500 * time.Millisecond)
					if rto := m.As[0].rtoMgr.getRTO(); rto < 1000 {
						m.Failf("rto.bounds", "RTO.max configured as %v ms: after a round-trip sample the retransmission timeout is %v ms, below the protocol minimum of 1000 ms", spec.rtoMax, rto)
					}
				}
			case "shutdown-blackhole":
				m.W.killFn = func(p *wpkt) bool { return p.from == 0 && isType(p, wSHUTDOWN) }
				m.Go("shut", func() {
					ctx, cancel := context.WithTimeout(context.Background(), run)
					defer cancel()
					m.As[0].Shutdown(ctx)
				})
				m.Sleep(run + time.Second)
			case "reconfig-blackhole":
				m.W.killFn = func(p *wpkt) bool { return p.from == 0 && isType(p, wRECONFIG) }
				sa.WriteSCTP(payload(1, 0, 50), PayloadTypeWebRTCBinary)
				m.S.WaitIdle()
				sa.Close()
				m.Sleep(run)
			case "heartbeat-stream":
				// steady probing, many probes per round trip: every answer is the answer to a probe
				// this side sent and yields a sample
				hl := &hbLog{}
				m.As[0].lock.Lock()
				m.As[0].log = hl
				m.As[0].lock.Unlock()
				for i := 0; i < 160; i++ {
					m.As[0].ActiveHeartbeat()
					m.Sleep(5 * time.Millisecond)
				}
				srtt := m.As[0].SRTT()
				acks := 0
				for _, ev := range m.W.events {
					if ev.Kind == "deliver" && ev.From == 1 && ev.Pkt.dec != nil {
						for _, c := range ev.Pkt.dec.Chunks {
							if c.Typ == wHBACK {
								acks++
							}
						}
					}
				}
				if hl.unsolicited > 0 || srtt == 0 {
					m.Failf("heartbeat.rtt", "160 on-demand heartbeats 5 ms apart on a link with a round trip of %v: %d answers have arrived, %d of them were dismissed as unsolicited, SRTT=%v", m.W.delay[0]+m.W.delay[1], acks, hl.unsolicited, srtt)
				}
				m.Sleep(2 * time.Second)
				m.Observe("acks=%d unsolicited=%d", acks, hl.unsolicited)
			case "heartbeat", "heartbeat0", "heartbeat-pending":
				if spec.kind == "heartbeat-pending" {
					// the peer has data it cannot get acknowledged and has called Shutdown: it is in
					// SHUTDOWN-PENDING, the association is alive and this side still ESTABLISHED
					m.W.killFn = func(p *wpkt) bool { return p.from == 1 && isType(p, wDATA) }
					sb.WriteSCTP(payload(1, 7, 40), PayloadTypeWebRTCBinary)
					m.Go("shutB", func() {
						ctx, cancel := context.WithTimeout(context.Background(), 20*time.Second)
						defer cancel()
						m.As[1].Shutdown(ctx)
					})
					m.WaitUntil("peer-pending", 5*time.Second, func() bool { return m.As[1].getState() == shutdownPending })
					if m.As[1].getState() != shutdownPending || m.As[0].getState() != established {
						m.Failf("heartbeat.base", "could not reach SHUTDOWN-PENDING / ESTABLISHED (%s / %s)", getAssociationStateString(m.As[1].getState()), getAssociationStateString(m.As[0].getState()))
					}
				}
				hl := &hbLog{}
				m.As[0].lock.Lock()
				m.As[0].log = hl
				m.As[0].lock.Unlock()
				m.W.faultsOn = true
				s0 := m.As[0].SRTT()
				m.As[0].ActiveHeartbeat()
				m.Sleep(3 * time.Second)
				s1 := m.As[0].SRTT()
				// with one fault the probe (or its answer) may be lost: then a second one must work
				if s1 == s0 {
					m.As[0].ActiveHeartbeat()
					m.Sleep(3 * time.Second)
					s1 = m.As[0].SRTT()
				}
				hb, hback := 0, 0
				for _, ev := range m.W.events {
					if ev.Kind == "send" && ev.Pkt.dec != nil {
						for _, c := range ev.Pkt.dec.Chunks {
							if c.Typ == wHEARTBEAT && ev.From == 0 {
								hb++
								if len(c.Params) != 1 || c.Params[0].Typ != 1 || len(c.Params[0].Val) != 8 {
									m.Failf("heartbeat.format", "on-demand HEARTBEAT without an 8-byte Heartbeat Info: %s", c.Summary())
								}
							}
							if c.Typ == wHBACK && ev.From == 1 {
								hback++
							}
						}
					}
				}
				if hb == 0 {
					m.Failf("heartbeat.sent", "ActiveHeartbeat put no HEARTBEAT on the wire")
				}
				// one heartbeat, one sample: a duplicated answer is not a second round trip
				if hl.samples > hb {
					m.Failf("heartbeat.dup-sample", "%d on-demand heartbeat(s) sent, %d round-trip samples taken from their answers: a duplicated HEARTBEAT-ACK was measured again", hb, hl.samples)
				}
				if hback == 0 {
					m.Failf("heartbeat.answer", "the peer never answered the HEARTBEAT (%d sent)", hb)
				}
				wantRTT := float64((m.W.delay[0] + m.W.delay[1]).Milliseconds())
				if wantRTT > 0 && s1 == s0 {
					m.Failf("heartbeat.rtt", "no round-trip sample after the heartbeat exchange (SRTT stays %v)", s1)
				}
				m.Observe("hb=%d ack=%d", hb, hback)
			}
			m.W.killFn = nil
			m.W.faultsOn = false
			m.CloseBoth()
		},
		Final: func(m *Sim, x *Exec) {
			generalVerdicts(m, x, false)
			facts = runWireMonitors(m, x, monOpts{})
			rtoMax := spec.rtoMax
			if rtoMax == 0 {
				rtoMax = 60000
			}
			if rtoMax < 1000 {
				rtoMax = 1000 // a configured maximum below the protocol minimum cannot pull timeouts under one second
			}
			checkGaps := func(what string, times []time.Duration, minExp int) {
				// drop sends at the same instant (PTO probe together with T3)
				var ts []time.Duration
				for _, t := range times {
					if len(ts) == 0 || t != ts[len(ts)-1] {
						ts = append(ts, t)
					}
				}
				if len(ts)-1 < minExp {
					m.Failf("backoff.gaveup", "%s: only %d retransmissions in the run (times %v)", what, len(ts)-1, ts)
					return
				}
				for i := 1; i < len(ts); i++ {
					gap := ts[i] - ts[i-1]
					want := time.Duration(calcBackoff(1000, uint(i-1), rtoMax)) * time.Millisecond
					if gap != want {
						m.Failf("backoff.interval", "%s: retransmission %d came %v after the previous transmission, want %v (times %v)", what, i, gap, want, ts)
						return
					}
				}
			}
			switch spec.kind {
			case "data-blackhole":
				for _, tsn := range facts.XmitOrder[0] {
					checkGaps(fmt.Sprintf("DATA TSN %d", tsn), facts.Xmit[0][tsn].Times, 12)
				}
			case "shutdown-blackhole", "reconfig-blackhole":
				typ := uint8(wSHUTDOWN)
				if spec.kind == "reconfig-blackhole" {
					typ = wRECONFIG
				}
				var times []time.Duration
				for _, ev := range x.Events {
					if ev.Kind == "send" && ev.From == 0 && ev.Pkt.dec != nil && ev.Pkt.dec.Chunks[0].Typ == typ {
						times = append(times, ev.At)
					}
				}
				checkGaps(wTypeName(typ), times, 12)
			}
		},
	}
}

// c19HandshakeScenario: the connecting endpoint against a peer that goes silent at a chosen
// point of the handshake.  The handshake packet in question is sent 1+maxInitRetrans times with
// the back-off law between the copies, and the connect call fails right after the last period.
//   silent          nothing is ever answered
//   initack-nocookie the INIT is answered once, by an INIT-ACK without a State Cookie
//   initack-then-silent a proper INIT-ACK, the COOKIE-ECHO is never answered
func c19HandshakeScenario(kind string, rtoMax float64, il bool) *Scenario {
	return &Scenario{
		Name:    "hs-timers",
		Horizon: 2000 * time.Second,
		Setup:   func(m *Sim) { m.W.delay = [2]time.Duration{time.Millisecond, time.Millisecond} },
		Body: func(m *Sim) {
			cfg := epCfg{NoInterleave: !il, MTU: 228, RTOMax: rtoMax, InitTSN: 0xFFFFFFFD}
			p := newScripted(m, cfg, il, false)
			p.dialT = m.Go("dial", func() { m.Dial(0, cfg) })
			p.settle(0)
			switch kind {
			case "initack-nocookie":
				p.inject(p.pkt(chunkBytes(wINITACK, 0, wInitVal(p.tag, p.arwnd, 65535, 65535, p.tsn0, p.initParams()...))))
			case "initack-then-silent":
				cookie := []byte("cookie-cookie-cookie-cookie-1234")
				p.inject(p.pkt(chunkBytes(wINITACK, 0, wInitVal(p.tag, p.arwnd, 65535, 65535, p.tsn0, append([][]byte{wTLVBytes(7, cookie, true)}, p.initParams()...)...))))
			}
			rm := rtoMax
			if rm == 0 {
				rm = defaultRTOMax
			}
			if rm < 1000 {
				rm = 1000
			}
			bound := time.Duration(float64(maxInitRetrans+1)*rm) * time.Millisecond
			ok := m.WaitUntil("dial-failed", bound+5*time.Second, func() bool { return p.dialT.Done })
			if !ok {
				m.Failf("handshake.hang", "%s: the connect call has not returned %v after it began", kind, bound+5*time.Second)
			} else if m.Err[0] == nil {
				m.Failf("handshake.hang", "%s: the connect call succeeded against a peer that never completed the handshake", kind)
			}
			c03Teardown(m, p)
		},
		Final: func(m *Sim, x *Exec) {
			generalVerdicts(m, x, true)
			typ := uint8(wINIT)
			if kind == "initack-then-silent" {
				typ = wCOOKIEECHO
			}
			var times []time.Duration
			for _, ev := range x.Events {
				if ev.Kind == "send" && ev.From == 0 && ev.Pkt.dec != nil && len(ev.Pkt.dec.Chunks) > 0 && ev.Pkt.dec.Chunks[0].Typ == typ {
					times = append(times, ev.At)
				}
			}
			if len(times) != 1+int(maxInitRetrans) {
				m.Failf("handshake.retries", "%s: %d transmissions of %s, want %d (times %v)", kind, len(times), wTypeName(typ), 1+maxInitRetrans, times)
				return
			}
			rm := rtoMax
			if rm == 0 {
				rm = defaultRTOMax
			}
			if rm < 1000 {
				rm = 1000
			}
			for i := 1; i < len(times); i++ {
				gap := times[i] - times[i-1]
				want := time.Duration(calcBackoff(1000, uint(i-1), rm)) * time.Millisecond
				if gap != want {
					m.Failf("backoff.interval", "%s: %s copy %d came %v after the previous one, want %v (times %v)", kind, wTypeName(typ), i, gap, want, times)
					return
				}
			}
			for _, h := range x.Hist {
				if h.Call == "dial0" {
					want := times[len(times)-1] + time.Duration(calcBackoff(1000, uint(len(times)-1), rm))*time.Millisecond
					if h.At < times[len(times)-1] || h.At > want+time.Second {
						m.Failf("handshake.giveup", "%s: the connect call returned at %v, the last retransmission period ended at %v", kind, h.At, want)
					}
				}
			}
		},
	}
}

// t3Law (RFC 4960 6.3.2 R1-R3), evaluated at quiescent points: while an endpoint that can still
// send has unacknowledged, non-abandoned DATA outstanding, its T3-rtx timer is running.
func t3Law(m *Sim) {
	for i, a := range m.As {
		if a == nil {
			continue
		}
		switch a.getState() {
		case established, shutdownPending, shutdownReceived:
		default:
			continue
		}
		q := a.inflightQueue
		var first *chunkPayloadData
		for k := 0; k < q.chunks.Len(); k++ {
			if c := q.chunks.At(k); !c.acked && !c.abandoned() {
				first = c
				break
			}
		}
		if first != nil && a.t3RTX.state != rtxTimerStarted {
			m.viol = append(m.viol, Violation{Oracle: "timer.t3-idle", Msg: fmt.Sprintf("endpoint %d at %v: TSN %d is outstanding (sent %d times) but T3-rtx is not running", i, m.S.Now(), first.tsn, first.nSent)})
		}
	}
}

// ackDelayOracle / karnOracle run over fault-enumerated transfer executions.
func ackDelayOracle(m *Sim, x *Exec) {
	type rstate struct {
		have map[uint32]bool
		cum  uint32
		init bool
	}
	var rs [2]rstate
	rs[0].have, rs[1].have = map[uint32]bool{}, map[uint32]bool{}
	type pend struct {
		at        time.Duration
		immediate bool
		what      string
	}
	var pending [2][]pend
	shut := false
	// the window each endpoint last advertised: a receiver with (nearly) no window may drop a
	// new chunk; the oracle then cannot know what the receiver holds, so such a chunk neither
	// calls for an immediate SACK nor makes a later copy a "duplicate"
	lastArwnd := [2]uint32{1 << 30, 1 << 30}
	for _, ev := range x.Events {
		if ev.Pkt.dec == nil {
			continue
		}
		switch ev.Kind {
		case "deliver":
			y := 1 - ev.From
			r := &rs[y]
			hasData := false
			immediate := false
			for _, c := range ev.Pkt.dec.Chunks {
				switch c.Typ {
				case wINIT, wINITACK:
					if !r.init {
						r.cum, r.init = c.InitTSN-1, true
					}
				case wSHUTDOWN, wSHUTDOWNACK, wABORT:
					shut = true
				case wDATA, wIDATA:
					hasData = true
					if !r.have[c.TSN] && sna32lt(r.cum, c.TSN) && lastArwnd[y] < uint32(len(c.Data)) {
						continue // may be dropped for lack of window
					}
					if r.have[c.TSN] || sna32lte(c.TSN, r.cum) {
						immediate = true // duplicate
					} else if c.TSN != r.cum+1 {
						immediate = true // creates a gap
					}
					r.have[c.TSN] = true
					for r.have[r.cum+1] {
						r.cum++
					}
				case wFWDTSN, wIFWDTSN:
					if sna32lt(r.cum, c.NewCum) {
						r.cum = c.NewCum
						for r.have[r.cum+1] {
							r.cum++
						}
					}
				}
			}
			if hasData && !shut {
				// still a gap after processing: fails to fill it
				for t := range r.have {
					if sna32lt(r.cum, t) {
						immediate = true
					}
				}
				pending[y] = append(pending[y], pend{ev.At, immediate, ev.Pkt.dec.Summary()})
			}
		case "send":
			y := ev.From
			isSack := false
			for _, c := range ev.Pkt.dec.Chunks {
				if c.Typ == wSACK || c.Typ == wSHUTDOWN {
					isSack = true
				}
				if c.Typ == wSACK || c.Typ == wINIT || c.Typ == wINITACK {
					lastArwnd[y] = c.ARwnd
				}
				if c.Typ == wSACK && rs[y].init && sna32lt(rs[y].cum, c.CumAck) {
					// the receiver says it holds everything up to here (chunks the oracle had
					// to treat as possibly dropped were accepted after all)
					rs[y].cum = c.CumAck
					for rs[y].have[rs[y].cum+1] {
						rs[y].cum++
					}
				}
				if c.Typ == wSHUTDOWN || c.Typ == wSHUTDOWNACK || c.Typ == wABORT {
					shut = true
				}
			}
			if isSack {
				for _, p := range pending[y] {
					d := ev.At - p.at
					if d > 200*time.Millisecond {
						m.Failf("ack.delay", "endpoint %d acknowledged %s only after %v", y, p.what, d)
					} else if p.immediate && d != 0 {
						m.Failf("ack.immediate", "endpoint %d: %s (gap or duplicate) was acknowledged after %v, not at once", y, p.what, d)
					}
				}
				pending[y] = nil
			}
		}
	}
	if !shut {
		for y := 0; y < 2; y++ {
			for _, p := range pending[y] {
				if x.Elapsed-p.at > 300*time.Millisecond && m.As[y] != nil {
					// never acknowledged although the run went on
					closedAt := time.Duration(0)
					for _, h := range x.Hist {
						if h.Call == fmt.Sprintf("close%d", y) {
							closedAt = h.At
						}
					}
					if closedAt == 0 || closedAt-p.at > 250*time.Millisecond {
						m.Failf("ack.delay", "endpoint %d never acknowledged %s delivered at %v", y, p.what, p.at)
					}
				}
			}
		}
	}
}

// karnHook samples SRTT at every quiescent point; karnOracle explains every change.
type srttSample struct {
	ev   int
	srtt [2]float64
}

func karnOracle(m *Sim, x *Exec, samples []srttSample) {
	// sender bookkeeping: transmissions per TSN so far, acked set
	type sstate struct {
		nsent   map[uint32]int
		acked   map[uint32]bool
		arrived map[uint32]bool // a copy of the TSN reached the peer (a round trip exists)
	}
	var ss [2]sstate
	for i := range ss {
		ss[i] = sstate{map[uint32]int{}, map[uint32]bool{}, map[uint32]bool{}}
	}
	justified := map[int][2]bool{} // event index -> per endpoint: a SACK delivered here newly acked a once-sent TSN
	for i, ev := range x.Events {
		if ev.Pkt.dec == nil {
			continue
		}
		switch ev.Kind {
		case "send":
			for _, c := range ev.Pkt.dec.Chunks {
				if c.Typ == wDATA || c.Typ == wIDATA {
					ss[ev.From].nsent[c.TSN]++
				}
			}
		case "deliver":
			y := 1 - ev.From
			for _, c := range ev.Pkt.dec.Chunks {
				var newly []uint32
				switch c.Typ {
				case wDATA, wIDATA:
					ss[ev.From].arrived[c.TSN] = true
				case wSACK, wSHUTDOWN:
					for t := range ss[y].nsent {
						if ss[y].acked[t] {
							continue
						}
						cov := sna32lte(t, c.CumAck)
						for _, g := range c.Gaps {
							if d := t - c.CumAck; d >= uint32(g.Start) && d <= uint32(g.End) && d < 1<<16 {
								cov = true
							}
						}
						if cov {
							newly = append(newly, t)
						}
					}
				case wHBACK:
					j := justified[i]
					j[y] = true
					justified[i] = j
				}
				for _, t := range newly {
					ss[y].acked[t] = true
					// (a chunk that never arrived - abandoned, skipped by FORWARD-TSN - is covered
					// by the cumulative ack all the same: it has no round trip to measure)
					if ss[y].nsent[t] == 1 && ss[y].arrived[t] {
						j := justified[i]
						j[y] = true
						justified[i] = j
					}
				}
			}
		}
	}
	for k := 1; k < len(samples); k++ {
		for y := 0; y < 2; y++ {
			if samples[k].srtt[y] == samples[k-1].srtt[y] {
				continue
			}
			ok := false
			for i := samples[k-1].ev; i < samples[k].ev && i < len(x.Events); i++ {
				if justified[i][y] {
					ok = true
				}
			}
			if !ok {
				m.Failf("karn", "endpoint %d: SRTT changed %v -> %v between wire events %d and %d although no SACK delivered in between newly acknowledged a chunk that was transmitted exactly once and reached the peer", y, samples[k-1].srtt[y], samples[k].srtt[y], samples[k-1].ev, samples[k].ev)
			}
		}
	}
}

func c19EndToEnd(j *Job) {
	// (1) timer object
	progs := [][]timerOp{
		{{0, "start"}},
		{{0, "start"}, {1000 * time.Millisecond, "stop"}, {1000 * time.Millisecond, "start"}},
		{{0, "start"}, {1000 * time.Millisecond, "stop"}, {1500 * time.Millisecond, "start"}, {4500 * time.Millisecond, "stop"}, {4500 * time.Millisecond, "start"}},
		{{0, "start"}, {3000 * time.Millisecond, "stop"}, {3000 * time.Millisecond, "start"}, {9 * time.Second, "close"}},
		{{0, "start"}, {500 * time.Millisecond, "start"}, {7000 * time.Millisecond, "close"}, {7000 * time.Millisecond, "start"}},
		{{0, "start"}, {1000 * time.Millisecond, "close"}},
		{{0, "start"}, {999 * time.Millisecond, "stop"}, {1000 * time.Millisecond, "start"}, {2000 * time.Millisecond, "stop"}, {2000 * time.Millisecond, "start"}, {3000 * time.Millisecond, "stop"}},
		// a closed timer stays closed whatever is called on it afterwards
		{{0, "start"}, {500 * time.Millisecond, "close"}, {600 * time.Millisecond, "stop"}, {700 * time.Millisecond, "start"}, {5000 * time.Millisecond, "stop"}, {5000 * time.Millisecond, "start"}},
		{{0, "close"}, {100 * time.Millisecond, "stop"}, {100 * time.Millisecond, "start"}},
	}
	for pi, prog := range progs {
		for _, mr := range []uint{0, 3} {
			d := 2
			if j.Thorough() {
				d = 3
			}
			j.Explore(fmt.Sprintf("T/prog%d/max%d", pi, mr), timerScenario(prog, mr, 4000), Budget{D: d}, nil)
			if j.capped() {
				return
			}
		}
	}
	ms := time.Millisecond
	aprogs := [][]timerOp{
		{{0, "start"}},
		{{0, "start"}, {200 * ms, "stop"}, {200 * ms, "start"}},
		{{0, "start"}, {200 * ms, "stop"}, {300 * ms, "start"}, {500 * ms, "stop"}, {600 * ms, "start"}},
		{{0, "start"}, {100 * ms, "stop"}, {100 * ms, "start"}, {300 * ms, "stop"}, {300 * ms, "start"}},
		{{0, "start"}, {50 * ms, "start"}, {200 * ms, "close"}, {200 * ms, "start"}},
		{{0, "start"}, {199 * ms, "stop"}, {200 * ms, "start"}, {400 * ms, "stop"}, {400 * ms, "start"}, {600 * ms, "stop"}, {700 * ms, "start"}},
	}
	for pi, prog := range aprogs {
		d := 2
		if j.Thorough() {
			d = 3
		}
		j.Explore(fmt.Sprintf("TA/prog%d", pi), ackTimerScenario(prog), Budget{D: d}, nil)
		if j.capped() {
			return
		}
	}
	// (2) end to end
	for _, il := range []bool{false, true} {
		for _, rm := range []float64{4000, 0, 300} {
			for _, kind := range []string{"data-blackhole", "shutdown-blackhole", "reconfig-blackhole"} {
				if !j.Thorough() && il && rm == 0 {
					continue
				}
				if rm == 300 && (il || kind != "data-blackhole") {
					continue
				}
				j.Explore(fmt.Sprintf("E/%s/rtomax%v/il%v", kind, rm, il), c19Scenario(&c19Spec{kind: kind, rtoMax: rm, il: il}), Budget{}, nil)
			}
		}
		j.Explore(fmt.Sprintf("E/heartbeat-stream/il%v", il), c19Scenario(&c19Spec{kind: "heartbeat-stream", rtoMax: 4000, il: il, delay: 100 * time.Millisecond}), Budget{}, nil)
		for _, kind := range []string{"heartbeat", "heartbeat0", "heartbeat-pending"} {
			for _, dl := range []time.Duration{0, 30 * time.Millisecond} {
				if kind != "heartbeat" && dl != 0 {
					continue
				}
				j.Explore(fmt.Sprintf("E/%s/delay%v/il%v", kind, dl, il), c19Scenario(&c19Spec{kind: kind, rtoMax: 4000, il: il, delay: dl}), Budget{K: 1}, nil)
			}
		}
	}
	// a T1-init failure verdict that lost the race against the INIT ACK (scenario of C04)
	for _, il := range []bool{false, true} {
		j.Explore(fmt.Sprintf("LT/il%v", il), lateT1InitScenario(epCfg{NoInterleave: !il, MTU: 228, RTOMax: 4000, InitTSN: 0xFFFFFFFD}, epCfg{Server: true, NoInterleave: !il, MTU: 228, RTOMax: 4000, InitTSN: 9}), Budget{}, nil)
	}
	// handshake timers against a peer that goes silent
	for _, il := range []bool{false, true} {
		for _, rm := range []float64{4000, 0, 300} {
			for _, kind := range []string{"silent", "initack-nocookie", "initack-then-silent"} {
				if !j.Thorough() && il && rm == 0 {
					continue
				}
				if rm == 300 && (il || kind != "silent") {
					continue
				}
				j.Explore(fmt.Sprintf("HS/%s/rtomax%v/il%v", kind, rm, il), c19HandshakeScenario(kind, rm, il), Budget{}, nil)
			}
		}
	}
	// (3) Karn's rule and ack delay over fault-enumerated transfers
	modes := stdModes()
	// an expiry of the retransmission timer against the acknowledgement that stops it
	for _, mode := range modes[:2] {
		dTimer := 1
		if j.Thorough() {
			dTimer = 3
		}
		j.Explore(fmt.Sprintf("VE/%s", mode.Name), validExpiryScenario(withBase(mode.A, 1191, 0xFFFFFFFC, 4000), withBase(mode.B, 1191, 3, 4000)), Budget{D: dTimer}, nil)
		for _, withY := range []bool{false, true} {
			j.Explore(fmt.Sprintf("SE/%s/y%v", mode.Name, withY), staleExpiryScenario(withBase(mode.A, 1191, 0xFFFFFFFC, 4000), withBase(mode.B, 1191, 3, 4000), withY), Budget{D: dTimer}, nil)
		}
	}
	var cases []xferCase
	cases = append(cases, famW1(modes, []uint32{0}, 1)...)
	cases = append(cases, famW1(modes[:1], []uint32{6}, 2)...)
	cases = append(cases, famW5(modes[:2], 1)...)
	cases = append(cases, famZ1(modes[:1], 1)...)
	cases = append(cases, famZ2(modes[:1], 0)...)
	cases = append(cases, famKS(modes[:1], 2, true, []time.Duration{0}, 3)...)
	cases = append(cases, famZ9(modes[:2], 1)...)
	// two consecutive chunks lost, the retransmission of the first lost again (gap-acked retransmission)
	for _, mode := range modes {
		mtu := uint32(100)
		spec := &xferSpec{A: withBase(mode.A, mtu, 0xFFFFFFFC, 4000), B: withBase(mode.B, mtu, 3, 4000),
			Streams: []streamSpec{{SID: 1, From: 0, Msgs: []msgSpec{{Size: 60, PPI: 53}, {Size: 61, PPI: 53}, {Size: 62, PPI: 53}, {Size: 63, PPI: 53}}}},
			Kill:    []killRule{{SID: 1, Msg: 1, Frag: -1, N: 2}, {SID: 1, Msg: 2, Frag: -1, N: 1}}, Faults: allFaults}
		cases = append(cases, xferCase{Name: "K/" + mode.Name + "/rtx-gapacked", K: 1, Spec: spec})
	}
	// T3 law while the peer's data is acknowledged by SHUTDOWN chunks only
	for _, mode := range modes {
		P := int(maxPayloadSizeForMTU(100, !mode.A.NoInterleave))
		for _, offs := range [][]uint32{{5, 6}, {4}} {
			sp := &shutSpec{A: withBase(mode.A, 100, 0xFFFFFFFC, 4000), B: withBase(mode.B, 100, 0xFFFFFFF7, 4000),
				BSizes: []int{20, 2*P + 2, 21, 22, 23, 24, 25}, KillBOff: offs, KillSacks: 100000}
			sc := shutScenario(sp)
			setup := sc.Setup
			sc.Setup = func(m *Sim) {
				setup(m)
				m.W.onQuiescent = m.invariantsAll
				m.quiescentHooks = append(m.quiescentHooks, func() { t3Law(m) })
			}
			j.Explore(fmt.Sprintf("T3/%s/shutdown-partial-ack/off%v", mode.Name, offs), sc, Budget{K: 0}, nil)
			if j.capped() {
				return
			}
		}
	}
	// small messages in separate packets; after losses the retransmission timer bundles several
	// of them into one packet, which can then carry a duplicate next to new data
	for _, mode := range modes[:2] {
		for _, n := range []int{2, 3} {
			var msgs []msgSpec
			for i := 0; i < n; i++ {
				msgs = append(msgs, msgSpec{Size: 20 + i, PPI: 53})
			}
			spec := &xferSpec{A: withBase(mode.A, 228, 0xFFFFFFFC, 4000), B: withBase(mode.B, 228, 3, 4000), Faults: faultSet{Drop: true},
				Streams: []streamSpec{{SID: 1, From: 0, Gap: 20 * time.Millisecond, Msgs: msgs}}}
			cases = append(cases, xferCase{Name: fmt.Sprintf("K/%s/small-bundle%d", mode.Name, n), K: 2, Spec: spec})
		}
	}
	for _, c := range cases {
		spec := c.Spec
		var samples []srttSample
		res := &xferResult{}
		spec.Final = func(m *Sim, x *Exec, r *xferResult) {
			generalVerdicts(m, x, false)
			ackDelayOracle(m, x)
			karnOracle(m, x, samples)
			// data is retransmitted for as long as the association lives: on a network that has
			// healed everything written gets through
			if r.Connected && !r.Drained {
				m.Failf("rtx.gave-up", "not drained at %v although the network has healed: buffered A=%d B=%d, delivered %s", r.DrainAt, bufAmt(m.As[0]), bufAmt(m.As[1]), deliverySummary(spec, r))
			}
			m.Observe("%s", deliverySummary(spec, r))
		}
		sc := xferScenario(spec, res)
		setup := sc.Setup
		sc.Setup = func(m *Sim) {
			samples = nil
			setup(m)
			m.quiescentHooks = append(m.quiescentHooks, func() {
				var s srttSample
				s.ev = len(m.W.events)
				for i := 0; i < 2; i++ {
					if m.As[i] != nil {
						s.srtt[i] = m.As[i].SRTT()
					}
				}
				samples = append(samples, s)
				t3Law(m)
			})
		}
		j.Explore(c.Name, sc, Budget{K: c.K}, nil)
		if j.capped() {
			return
		}
	}
}

// hbLog counts the HEARTBEAT-ACKs the library dismisses as not answering any of its probes.
type hbLog struct {
	nopLogger
	unsolicited int
	samples     int
}

func (l *hbLog) Tracef(f string, _ ...any) {
	if strings.Contains(f, "HB RTT: measured") {
		l.samples++
	}
}

func (l *hbLog) Debugf(f string, _ ...any) {
	if strings.Contains(f, "unsolicited heartbeat ack") {
		l.unsolicited++
	}
}

// t3Log watches the one trace the library leaves of a T3-rtx expiry it acts upon (collapsing
// cwnd, marking everything outstanding for retransmission).  It is called with the association
// lock held, so the state of the timer it reads is the state the expiry is applied to.
type t3Log struct {
	nopLogger
	m  *Sim
	a  *Association
	ep int
}

func (l *t3Log) Debugf(f string, args ...any) {
	if !strings.Contains(f, "T3-rtx timed out") || len(args) < 2 {
		return
	}
	n, _ := args[1].(uint)
	t := l.a.t3RTX
	if t.state != rtxTimerStarted || t.nRtos != n {
		what := "the timer has been stopped since (nothing is waiting for an acknowledgement)"
		if t.state == rtxTimerStarted {
			what = fmt.Sprintf("the timer has been stopped and started again since (the current run has expired %d times, this expiry is number %d of its run)", t.nRtos, n)
		}
		var out []string
		q := l.a.inflightQueue
		for i := 0; i < q.chunks.Len(); i++ {
			if c := q.chunks.At(i); !c.acked {
				out = append(out, fmt.Sprintf("TSN %d first sent %v ago", c.tsn, time.Since(c.since)))
			}
		}
		l.m.Failf("timer.stale-expiry", "endpoint %d at %v acts on a T3-rtx expiry (window collapsed to one MTU, everything outstanding marked for retransmission) that belongs to an earlier run of the timer: %s; outstanding: %v", l.ep, l.m.S.Now(), what, out)
	}
}

// staleExpiryScenario: the acknowledgement of the only outstanding message reaches the sender at
// the very instant its T3-rtx timer expires.  Whichever the sender handles first, it may act
// on the expiry only while that run of the timer is still the current one: an expiry decided
// before the acknowledgement stopped (or restarted) the timer must not be applied afterwards.
// withY: the application writes another message at the same instant.
// validExpiryScenario: the mirror image of the stale expiry.  Two messages leave at the same
// instant, the first is lost; the SACK that reports the second one alone (no cumulative
// progress: the timer is neither stopped nor restarted, only "started" again, which is a no-op
// on a running timer) reaches the sender at the very instant T3-rtx expires.  Whichever is
// handled first, this expiry belongs to the current run of the timer and must be acted upon:
// the lost message is retransmitted now, not one back-off period later.
func validExpiryScenario(a, b epCfg) *Scenario {
	return &Scenario{
		Name:    "valid-expiry",
		Horizon: 60 * time.Second,
		Setup: func(m *Sim) {
			m.S.SuspendTimers = true
			m.S.SuspendTimersLate = true
		},
		Body: func(m *Sim) {
			if !m.Connect(a, b) {
				m.Failf("connect", "handshake failed: %v %v", m.Err[0], m.Err[1])
				m.closeFailedTransports()
				m.CloseBoth()
				return
			}
			A := m.As[0]
			sa, _ := A.OpenStream(1, PayloadTypeWebRTCBinary)
			sb, _ := m.As[1].OpenStream(1, PayloadTypeWebRTCBinary)
			m.streamsSeen = append(m.streamsSeen, sa, sb)
			rd := m.Go("readB", func() {
				buf := make([]byte, 2000)
				for {
					if _, _, err := sb.ReadSCTP(buf); err != nil {
						return
					}
				}
			})
			m.Sleep(3 * time.Second)
			t0 := m.S.Now()
			var due time.Duration
			armed, nData := false, 0
			// of A's data packets only the second one (the first transmission of the second message)
			// gets through before the expiry: the first message, the tail-loss probe and whatever
			// the loss detectors resend meanwhile are lost, so that no other SACK comes back
			m.W.killFn = func(p *wpkt) bool {
				if p.from != 0 || p.dec == nil || (due != 0 && m.S.Now() > due) {
					return false
				}
				for _, c := range p.dec.Chunks {
					if c.Typ == wDATA || c.Typ == wIDATA {
						nData++
						return nData != 2
					}
				}
				return false
			}
			m.W.delayFn = func(p *wpkt) time.Duration {
				if !armed || p.from != 1 || p.dec == nil {
					return 0
				}
				for _, c := range p.dec.Chunks {
					if c.Typ == wSACK {
						armed = false
						if d := due - (m.S.Now() + m.W.delay[1]); d > 0 {
							return d
						}
					}
				}
				return 0
			}
			_, _ = sa.WriteSCTP(payload(1, 0, 40), PayloadTypeWebRTCBinary)
			if !m.WaitUntil("x-sent", 5*time.Second, func() bool { return A.t3RTX.state == rtxTimerStarted }) || m.S.Now() != t0 {
				m.Observe("not-at-once")
				m.CloseBoth()
				m.Join(rd)
				return
			}
			due = t0 + time.Duration(A.t3RTX.rto)*time.Millisecond
			armed = true
			_, _ = sa.WriteSCTP(payload(1, 1, 41), PayloadTypeWebRTCBinary)
			m.Sleep(due - m.S.Now() + 300*time.Millisecond)
			t := A.t3RTX
			if t.state == rtxTimerStarted && t.nRtos >= 1 && A.stats.getNumT3Timeouts() == 0 {
				m.Failf("timer.expiry-dropped", "T3-rtx expired (the timer counts %d expiries of its current run, it was neither stopped nor restarted) %v ago, but the association has not acted on it: no retransmission of the lost chunk, the next chance is a whole back-off period away", t.nRtos, m.S.Now()-due)
			}
			m.Sleep(8 * time.Second)
			m.Observe("t3=%d", A.stats.getNumT3Timeouts())
			m.CloseBoth()
			m.Join(rd)
		},
		Final: func(m *Sim, x *Exec) { generalVerdicts(m, x, false) },
	}
}

func staleExpiryScenario(a, b epCfg, withY bool) *Scenario {
	return &Scenario{
		Name:    "stale-expiry",
		Horizon: 60 * time.Second,
		Setup: func(m *Sim) {
			m.S.SuspendTimers = true
			m.S.SuspendTimersLate = true
		},
		Body: func(m *Sim) {
			if !m.Connect(a, b) {
				m.Failf("connect", "handshake failed: %v %v", m.Err[0], m.Err[1])
				m.closeFailedTransports()
				m.CloseBoth()
				return
			}
			A := m.As[0]
			A.lock.Lock()
			A.log = &t3Log{m: m, a: A, ep: 0}
			A.lock.Unlock()
			sa, _ := A.OpenStream(1, PayloadTypeWebRTCBinary)
			sb, _ := m.As[1].OpenStream(1, PayloadTypeWebRTCBinary)
			m.streamsSeen = append(m.streamsSeen, sa, sb)
			var got []string
			rd := m.Go("readB", func() {
				buf := make([]byte, 2000)
				for {
					n, _, err := sb.ReadSCTP(buf)
					if err != nil {
						return
					}
					m.mu.Lock()
					got = append(got, string(buf[:n]))
					m.mu.Unlock()
				}
			})
			m.Sleep(3 * time.Second) // handshake traffic settled, timers idle
			t0 := m.S.Now()
			var due time.Duration
			armed := false
			m.W.delayFn = func(p *wpkt) time.Duration {
				if !armed || p.from != 1 || p.dec == nil {
					return 0
				}
				for _, c := range p.dec.Chunks {
					if c.Typ == wSACK {
						armed = false
						if d := due - (m.S.Now() + m.W.delay[1]); d > 0 {
							return d
						}
					}
				}
				return 0
			}
			X := payload(1, 0, 40)
			_, _ = sa.WriteSCTP(X, PayloadTypeWebRTCBinary)
			if !m.WaitUntil("x-sent", 5*time.Second, func() bool { return A.t3RTX.state == rtxTimerStarted }) || m.S.Now() != t0 {
				// a schedule in which the message did not leave at once: not the situation examined
				m.Observe("not-at-once")
				m.CloseBoth()
				m.Join(rd)
				return
			}
			due = t0 + time.Duration(A.t3RTX.rto)*time.Millisecond
			armed = true
			if withY {
				m.Sleep(due - m.S.Now())
				_, _ = sa.WriteSCTP(payload(1, 1, 41), PayloadTypeWebRTCBinary)
			}
			want := 1
			if withY {
				want = 2
			}
			m.WaitUntil("delivered", 30*time.Second, func() bool {
				m.mu.Lock()
				defer m.mu.Unlock()
				return len(got) >= want
			})
			m.Sleep(5 * time.Second)
			m.Observe("t3=%d got=%d cwnd=%d", A.stats.getNumT3Timeouts(), len(got), A.CWND())
			m.CloseBoth()
			m.Join(rd)
		},
		Final: func(m *Sim, x *Exec) { generalVerdicts(m, x, false) },
	}
}

var _ = vsched.CatSched
