package sctp

func c19EndToEnd(j *Job) {}
