package sctp

import (
	"crypto/sha1"
	"encoding/hex"
	"encoding/json"
	"fmt"
	"os"
	"sort"
	"strings"
	"testing"
	"time"

	"github.com/pion/sctp/internal/vsched"
)

// Budget bounds the number of non-default choices of each category along one execution.
type Budget struct {
	K int // network / environment faults
	D int // departures from the canonical thread schedule
}

type FoundViolation struct {
	Property string   `json:"property"`
	Oracle   string   `json:"oracle"`
	Msg      string   `json:"msg"`
	Case     string   `json:"case"`
	Prefix   []int    `json:"prefix"`
	Sigs     []string `json:"sigs,omitempty"`
	Trace    []string `json:"trace,omitempty"`
	Repro    string   `json:"reproduced,omitempty"`
	Sig      string   `json:"signature"`
}

// Stats are accumulated over all cases of a job and merged by the driver.
type Stats struct {
	Execs        int               `json:"execs"`
	Steps        int64             `json:"steps"`
	NewStates    int64             `json:"new_states"`
	Cases        int               `json:"cases"`
	MaxDepth     int               `json:"max_depth"`
	Outcomes     map[string]int    `json:"outcomes"`
	Replayed     int               `json:"replayed"`
	Diverged     int               `json:"diverged"`
	IdentityTies int               `json:"identity_ties"`
	Horizon      int               `json:"horizon_hits"`
	Capped       bool              `json:"capped"`
	Internal     []string          `json:"internal,omitempty"`
	Violations   []FoundViolation  `json:"violations"`
	Samples      []any             `json:"samples"`
	LockOrder    map[string]bool   `json:"lock_order,omitempty"`
	Unreproduced []FoundViolation  `json:"unreproduced,omitempty"`
	Notes        []string          `json:"notes,omitempty"`
	BudgetDone   map[string]string `json:"budget_done,omitempty"`
	Extra        map[string]any    `json:"extra,omitempty"`
}

func newStats() *Stats {
	return &Stats{Outcomes: map[string]int{}, LockOrder: map[string]bool{}, BudgetDone: map[string]string{}}
}

// Explorer enumerates all executions of one scenario within a deviation budget.
type Explorer struct {
	T        *testing.T
	Prop     string
	Case     string
	Sc       *Scenario
	Budget   Budget
	Stats    *Stats
	Shard    int
	NShards  int
	Deadline time.Time
	// Classify maps an execution to an outcome class (for the distinct-outcome count).
	Classify func(x *Exec) string
	branchNo int
	maxViol  int
	progress *os.File
}

func costOf(st vsched.Step, choice int) (k, d int) {
	if choice == 0 || st.Cats == nil {
		return 0, 0
	}
	switch st.Cats[choice] {
	case vsched.CatFault:
		return 1, 0
	case vsched.CatSched:
		return 0, 1
	}
	return 0, 0
}

func (e *Explorer) capped() bool {
	if !e.Deadline.IsZero() && time.Now().After(e.Deadline) {
		e.Stats.Capped = true
		return true
	}
	return false
}

func (e *Explorer) note(prefix []int) {
	if e.progress != nil {
		b := fmt.Sprintf("%-400s\n", fmt.Sprintf("%s %s %v", e.Prop, e.Case, prefix))
		e.progress.WriteAt([]byte(b), 0)
	}
}

// Run explores the whole tree.
func (e *Explorer) Run() {
	e.Stats.Cases++
	e.explore(nil, 0, 0, 0)
}

func (e *Explorer) runOne(prefix []int, sigs []string) *Exec {
	e.note(prefix)
	x := runExec(e.T, e.Sc, prefix, sigs, false)
	return x
}

func (e *Explorer) explore(prefix []int, usedK, usedD int, depth int) {
	if e.capped() {
		return
	}
	mine := true
	if depth == 1 && e.NShards > 1 {
		mine = e.branchNo%e.NShards == e.Shard
		e.branchNo++
		if !mine {
			return
		}
	}
	x := e.runOne(prefix, nil)
	countIt := depth > 0 || e.Shard == 0
	if tr := os.Getenv("VERIF_TRACE"); tr != "" && depth == 0 && e.Shard == 0 && strings.Contains(e.Case, tr) && x.Out != nil {
		// debugging aid: dump the canonical execution of the case
		fmt.Printf("TRACE %s\n", e.Case)
		for _, l := range renderTrace(x) {
			fmt.Println("  " + l)
		}
		for i, st := range x.Out.Steps {
			if st.N > 1 {
				fmt.Printf("  step %d n=%d %s cats=%v\n", i, st.N, st.Sig, st.Cats)
			}
		}
	}
	if x.Internal != "" {
		e.Stats.Internal = append(e.Stats.Internal, fmt.Sprintf("%s %v: %s", e.Case, prefix, x.Internal))
		return
	}
	if x.Out.Diverged {
		// retry
		ok := false
		for i := 0; i < 3 && !ok; i++ {
			x = e.runOne(prefix, nil)
			ok = x.Internal == "" && !x.Out.Diverged
		}
		if !ok {
			e.Stats.Diverged++
			e.Stats.Notes = append(e.Stats.Notes, fmt.Sprintf("diverged subtree %s %v: %s", e.Case, prefix, x.Out.DivergeMsg))
			return
		}
	}
	if countIt {
		e.Stats.Execs++
		e.Stats.Steps += int64(len(x.Out.Steps))
		e.Stats.NewStates += int64(len(x.Out.Steps) - len(prefix) + 1)
		if depth > e.Stats.MaxDepth {
			e.Stats.MaxDepth = depth
		}
		if x.Out.IdentityTie {
			e.Stats.IdentityTies++
		}
		if x.Out.Horizon {
			e.Stats.Horizon++
		}
		cls := ""
		x.Prefix = prefix
		if e.Classify != nil {
			cls = e.Classify(x)
		} else {
			cls = strings.Join(x.Obs, "|")
		}
		h := sha1.Sum([]byte(cls))
		e.Stats.Outcomes[hex.EncodeToString(h[:6])]++
		for k := range x.Out.LockOrder {
			e.Stats.LockOrder[k] = true
		}
		if len(e.Stats.Samples) < 3 && (depth > 0 || len(e.Stats.Samples) == 0) {
			e.Stats.Samples = append(e.Stats.Samples, map[string]any{"case": e.Case, "prefix": append([]int{}, prefix...), "choices": nonDefault(x), "steps": len(x.Out.Steps), "outcome": cls})
		}
		e.verdicts(x, prefix)
		// determinism spot check: the first 20 executions and every 200th
		if e.Stats.Execs <= 20 || e.Stats.Execs%200 == 0 {
			e.replayCheck(x, prefix)
		}
	}
	// children
	steps := x.Out.Steps
	choices := make([]int, len(steps))
	for i, st := range steps {
		choices[i] = st.Chosen
	}
	k, d := usedK, usedD
	for i := len(prefix); i < len(steps); i++ {
		st := steps[i]
		if st.N > 1 {
			for alt := 1; alt < st.N; alt++ {
				ck, cd := costOf(st, alt)
				if k+ck > e.Budget.K || d+cd > e.Budget.D {
					continue
				}
				if ck == 0 && cd == 0 {
					continue // free alternatives do not exist in this design
				}
				np := append(append([]int{}, choices[:i]...), alt)
				e.explore(np, k+ck, d+cd, depth+1)
				if e.capped() {
					return
				}
			}
		}
		ck, cd := costOf(st, st.Chosen)
		k += ck
		d += cd
	}
}

func nonDefault(x *Exec) []string {
	var out []string
	for i, st := range x.Out.Steps {
		if st.Chosen != 0 {
			out = append(out, fmt.Sprintf("%d:%s", i, st.Sig))
		}
	}
	return out
}

func (e *Explorer) replayCheck(x *Exec, prefix []int) {
	sigs := make([]string, len(x.Out.Steps))
	all := make([]int, len(x.Out.Steps))
	for i, st := range x.Out.Steps {
		sigs[i] = st.Sig
		all[i] = st.Chosen
	}
	y := runExec(e.T, e.Sc, all, sigs, false)
	e.Stats.Replayed++
	if y.Internal != "" || y.Out.Diverged || len(y.Out.Steps) != len(x.Out.Steps) || strings.Join(y.Obs, "|") != strings.Join(x.Obs, "|") {
		e.Stats.Diverged++
		msg := ""
		if y.Out != nil {
			msg = y.Out.DivergeMsg
		}
		e.Stats.Notes = append(e.Stats.Notes, fmt.Sprintf("replay divergence %s %v: %s %s (steps %d vs %d)", e.Case, prefix, y.Internal, msg, len(x.Out.Steps), lenSteps(y)))
	}
}

func lenSteps(x *Exec) int {
	if x.Out == nil {
		return -1
	}
	return len(x.Out.Steps)
}

// verdicts turns scheduler verdicts and oracle failures of one execution into violations.
func (e *Explorer) verdicts(x *Exec, prefix []int) {
	var vs []Violation
	for _, p := range x.Out.Panics {
		if harnessPanic(p) {
			e.Stats.Internal = append(e.Stats.Internal, fmt.Sprintf("%s %v: harness panic: %s", e.Case, prefix, firstLines(p, 24)))
			continue
		}
		vs = append(vs, Violation{Oracle: "panic", Msg: firstLines(p, 12)})
	}
	vs = append(vs, x.Viol...)
	if len(vs) == 0 {
		return
	}
	// the cap is per oracle: a frequent (possibly known) finding must not crowd out another one
	if e.maxViol > 0 {
		perOracle := map[string]int{}
		for _, fv := range e.Stats.Violations {
			perOracle[fv.Oracle]++
		}
		var keep []Violation
		for _, v := range vs {
			if perOracle[v.Oracle] < e.maxViol {
				keep = append(keep, v)
			}
		}
		vs = keep
		if len(vs) == 0 {
			return
		}
	}
	// group by oracle: one finding per (oracle) per execution
	seen := map[string]bool{}
	for _, v := range vs {
		if seen[v.Oracle] {
			continue
		}
		seen[v.Oracle] = true
		fv := FoundViolation{Property: e.Prop, Oracle: v.Oracle, Msg: v.Msg, Case: e.Case, Prefix: append([]int{}, prefix...)}
		fv.Sig = e.Prop + "/" + v.Oracle
		// re-run 4 more times from the full choice list before believing it
		all := make([]int, len(x.Out.Steps))
		sigs := make([]string, len(x.Out.Steps))
		for i, st := range x.Out.Steps {
			all[i] = st.Chosen
			sigs[i] = st.Sig
		}
		again := 1
		for i := 0; i < 4; i++ {
			y := runExec(e.T, e.Sc, all, nil, false)
			for _, w := range y.Viol {
				if w.Oracle == v.Oracle {
					again++
					break
				}
			}
			if v.Oracle == "panic" && y.Out != nil && len(y.Out.Panics) > 0 {
				again++
			}
		}
		fv.Repro = fmt.Sprintf("%d/5", again)
		fv.Prefix = all
		fv.Sigs = nil
		fv.Trace = renderTrace(x)
		if again >= 2 {
			e.Stats.Violations = append(e.Stats.Violations, fv)
		} else {
			e.Stats.Unreproduced = append(e.Stats.Unreproduced, fv)
		}
	}
}

// harnessPanic tells whether a recorded panic was raised by harness code itself (the first
// frame below the runtime's panic machinery is a zz_verif file): that is a bug of the
// machinery, reported as an internal error, never as a property violation.
func harnessPanic(p string) bool {
	if strings.Contains(p, "unlock of unlocked mutex") && !strings.Contains(p, "zz_verif_") {
		// raised by the lock shim, but it is the library's misuse (sync.Mutex would end the
		// process with a fatal error): typically the second panic of a deferred Unlock after a
		// first panic in a section that had released the lock
		return false
	}
	lines := strings.Split(p, "\n")
	seenPanic := false
	for i, l := range lines {
		if strings.HasPrefix(l, "panic(") {
			seenPanic = true
			continue
		}
		if !seenPanic || !strings.HasPrefix(l, "\t") {
			continue
		}
		if strings.Contains(l, "/runtime/") {
			continue
		}
		_ = i
		return strings.Contains(l, "zz_verif_") || strings.Contains(l, "/internal/v")
	}
	return false
}

func firstLines(s string, n int) string {
	ls := strings.Split(s, "\n")
	if len(ls) > n {
		ls = ls[:n]
	}
	return strings.Join(ls, "\n")
}

// renderTrace produces the human-readable packet / API trace stored in replay files.
func renderTrace(x *Exec) []string {
	type item struct {
		at  time.Duration
		ord int
		s   string
	}
	var items []item
	for i, ev := range x.Events {
		sum := "?"
		if ev.Pkt.dec != nil {
			sum = ev.Pkt.dec.Summary()
		}
		if ev.Pkt.decErr != nil {
			sum += " DECODE-ERROR " + ev.Pkt.decErr.Error()
		}
		items = append(items, item{ev.At, i, fmt.Sprintf("%9.3fs net %-7s #%d %d>%d %s", ev.At.Seconds(), ev.Kind, ev.Seq, ev.From, 1-ev.From, sum)})
	}
	for i, h := range x.Hist {
		items = append(items, item{h.At, 100000 + i, fmt.Sprintf("%9.3fs api %s %s -> %s", h.At.Seconds(), h.Thread, h.Call, h.Result)})
	}
	sort.SliceStable(items, func(i, j int) bool {
		if items[i].at != items[j].at {
			return items[i].at < items[j].at
		}
		return false
	})
	out := make([]string, 0, len(items))
	for _, it := range items {
		out = append(out, it.s)
	}
	if len(out) > 400 {
		out = append(out[:200], append([]string{"..."}, out[len(out)-200:]...)...)
	}
	return out
}

func writeJSON(path string, v any) error {
	b, err := json.MarshalIndent(v, "", " ")
	if err != nil {
		return err
	}
	return os.WriteFile(path, b, 0o644)
}
