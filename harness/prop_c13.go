package sctp

import (
	"encoding/binary"
	"fmt"
	"time"
)

func init() { register("C13", propC13) }

func c13Samples() []struct {
	name  string
	first uint8
	body  []byte
} {
	d := func(t uint8, v []byte) []byte { return chunkBytes(t, 0, v) }
	return []struct {
		name  string
		first uint8
		body  []byte
	}{
		{"DATA", wDATA, chunkBytes(wDATA, 3, wDataVal(9, 1, 0, 53, []byte("abc")))},
		{"IDATA", wIDATA, chunkBytes(wIDATA, 3, wIDataVal(9, 1, 0, 53, []byte("abc")))},
		{"INIT", wINIT, d(wINIT, wInitVal(7, 1<<20, 5, 5, 3))},
		{"INITACK", wINITACK, d(wINITACK, wInitVal(7, 1<<20, 5, 5, 3, wTLVBytes(7, []byte("cook"), true)))},
		{"SACK", wSACK, d(wSACK, wSackVal(1, 1<<20, nil, nil))},
		{"HEARTBEAT", wHEARTBEAT, d(wHEARTBEAT, wTLVBytes(1, []byte("12345678"), true))},
		{"HBACK", wHBACK, d(wHBACK, wTLVBytes(1, []byte("12345678"), true))},
		{"ABORT", wABORT, d(wABORT, nil)},
		{"SHUTDOWN", wSHUTDOWN, d(wSHUTDOWN, u32(3))},
		{"SHUTDOWNACK", wSHUTDOWNACK, d(wSHUTDOWNACK, nil)},
		{"ERROR", wERROR, d(wERROR, nil)},
		{"COOKIEECHO", wCOOKIEECHO, d(wCOOKIEECHO, []byte("cookie"))},
		{"COOKIEACK", wCOOKIEACK, d(wCOOKIEACK, nil)},
		{"SHUTCOMPL", wSHUTCOMPL, d(wSHUTCOMPL, nil)},
		{"RECONFIG", wRECONFIG, d(wRECONFIG, wTLVBytes(16, cat(u32(1), u32(1)), true))},
		{"FWDTSN", wFWDTSN, d(wFWDTSN, wFwdVal(3, nil))},
		{"IFWDTSN", wIFWDTSN, d(wIFWDTSN, wIFwdVal(3, nil))},
		{"SACK+DATA", wSACK, cat(d(wSACK, wSackVal(1, 1<<20, nil, nil)), chunkBytes(wDATA, 3, wDataVal(9, 1, 0, 53, []byte("abc"))))},
		{"DATA+COOKIEECHO", wDATA, cat(chunkBytes(wDATA, 3, wDataVal(9, 1, 0, 53, []byte("abcd"))), d(wCOOKIEECHO, []byte("cookie")))},
	}
}

// c13Matrix: acceptance of every checksum variant by the association's own decode path.
func c13Matrix(j *Job) {
	if !j.mine(0) {
		return
	}
	var n int64
	for _, s := range c13Samples() {
		w := wNewPacket(5000, 5000, 0x01020304)
		w.rawChunk(s.body)
		good := w.bytes(true)
		correct := binary.LittleEndian.Uint32(good[8:])
		var variants []uint32
		variants = append(variants, correct, 0)
		for b := 0; b < 32; b++ {
			variants = append(variants, correct^(1<<b))
		}
		for k := uint32(1); k <= 64; k++ {
			variants = append(variants, correct+k*0x01010101, k)
		}
		for opt := 0; opt < 4; opt++ {
			// acceptance depends on what this endpoint advertised alone, whatever the peer
			// declared (which only governs what this endpoint may send)
			enabled := opt&1 != 0
			a := &Association{recvZeroChecksum: enabled, sendZeroChecksum: opt&2 != 0}
			for _, v := range variants {
				raw := append([]byte(nil), good...)
				binary.LittleEndian.PutUint32(raw[8:], v)
				_, err := a.unmarshalPacket(raw)
				accepted := err == nil
				mandatory := s.first == wINIT || s.first == wCOOKIEECHO
				want := v == correct || (v == 0 && enabled && !mandatory)
				n++
				if accepted != want {
					j.failSeq("cksum.accept", "matrix/"+s.name, fmt.Sprintf("packet starting with %s, checksum field %#x (correct %#x), zero-checksum acceptance=%v (peer declared acceptance=%v): accepted=%v want %v", s.name, v, correct, enabled, opt&2 != 0, accepted, want), nil)
				}
			}
		}
	}
	j.Stats.Steps += n
	j.Stats.NewStates += n
	j.Stats.Execs += int(n)
	j.sample(map[string]any{"engine": "seq", "what": "acceptance matrix: first chunk kind x zero-checksum option x checksum field {correct, 0, all single-bit errors, 128 other values}", "evaluations": n})
}

// c13Corruption: every single-bit corruption of sample packets must leave an established
// association (with data in flight) untouched and unanswered.
func c13CorruptionScenario(enabledZC bool, il bool, from, to int, doubleBits bool) *Scenario {
	return &Scenario{
		Name:    "corruption",
		Horizon: 120 * time.Second,
		Setup: func(m *Sim) {
			m.InvOn = true
			m.W.onQuiescent = m.invariantsAll
			m.W.delay = [2]time.Duration{time.Millisecond, time.Millisecond}
		},
		Body: func(m *Sim) {
			cfg := epCfg{Server: true, NoInterleave: !il, ZeroChecksum: enabledZC, MTU: 228, RTOMax: 4000, InitTSN: 0xFFFFFFF5}
			p := newScripted(m, cfg, il, false)
			if !p.connectServer() {
				m.Failf("e2.base", "handshake failed")
				c03Teardown(m, p)
				return
			}
			p.startReader(1)
			s, _ := p.a.OpenStream(2, PayloadTypeWebRTCBinary)
			s.WriteSCTP(payload(2, 0, 500), PayloadTypeWebRTCBinary)
			p.settle(0)
			a := p.a
			// valid packets relative to the live state, then corrupt them
			hs := hostileAlphabet(p)
			var pool [][]byte
			for _, h := range hs {
				switch h.name {
				case "DATA/tsn=expected/fl=3", "SACK/cum=next-1/gap=none/rwnd=1048576", "HEARTBEAT/8", "ABORT", "SHUTDOWN/all", "RECONFIG/req-known", "INIT", "COOKIE-ECHO/wrong", "FWD/+1/known", "IFWD/+1/known", "BUNDLE/sack+data":
					pool = append(pool, h.raw)
				}
			}
			idx := 0
			for _, raw := range pool {
				nbits := len(raw) * 8
				for b := 0; b < nbits; b++ {
					for b2 := -1; b2 < 32*8 && b2 < nbits; b2++ {
						if b2 >= 0 && (!doubleBits || b2 <= b || b >= 32*8) {
							continue
						}
						if b2 == -1 || doubleBits {
							idx++
							if idx <= from || idx > to {
								if !doubleBits {
									break
								}
								continue
							}
							c := append([]byte(nil), raw...)
							c[b/8] ^= 1 << (b % 8)
							if b2 >= 0 {
								c[b2/8] ^= 1 << (b2 % 8)
							}
							if binary.LittleEndian.Uint32(c[8:]) == 0 {
								continue // a zero checksum field is the other rule
							}
							before := snapAssoc(a)
							out := p.inject(c)
							if after := snapAssoc(a); after != before {
								m.Failf("cksum.corrupt", "a packet with bit %d (and %d) flipped changed the association:\n before %s\n after  %s", b, b2, before, after)
								break
							}
							if len(out) > 0 {
								m.Failf("cksum.corrupt", "a packet with bit %d flipped was answered with %s", b, out[0].dec.Summary())
								break
							}
						}
						if !doubleBits {
							break
						}
					}
				}
			}
			m.Observe("range %d-%d of %d", from, to, idx)
			c03Teardown(m, p)
		},
		Final: func(m *Sim, x *Exec) { generalVerdicts(m, x, false) },
	}
}

// c13HandshakeRules: zero checksum on COOKIE-ECHO / INIT is never accepted; a peer that
// advertises acceptance with a method other than DTLS (or not at all) keeps getting CRC32c.
type c13HS struct {
	name      string
	enabled   bool   // endpoint accepts zero checksum
	peerParam []byte // parameter the scripted peer puts into its INIT (nil: none)
	expectZC  bool   // endpoint may emit zero checksum
	zeroEcho  bool   // peer sends its COOKIE-ECHO with a zero checksum (must be ignored)
	zeroInit  bool
}

func c13HSScenario(h c13HS, il bool) *Scenario {
	return &Scenario{
		Name:    "zc-handshake",
		Horizon: 60 * time.Second,
		Setup:   func(m *Sim) { m.W.delay = [2]time.Duration{time.Millisecond, time.Millisecond} },
		Body: func(m *Sim) {
			cfg := epCfg{Server: true, NoInterleave: !il, ZeroChecksum: h.enabled, MTU: 228, RTOMax: 4000, InitTSN: 77}
			p := newScripted(m, cfg, il, false)
			p.dialT = m.Go("dial", func() { m.Dial(0, cfg) })
			p.settle(0)
			params := p.initParams()
			if h.peerParam != nil {
				params = append([][]byte{h.peerParam}, params...)
			}
			init := chunkBytes(wINIT, 0, wInitVal(p.tag, p.arwnd, 65535, 65535, p.tsn0, params...))
			w := wNewPacket(5000, 5000, 0)
			w.rawChunk(init)
			raw := w.bytes(!h.zeroInit)
			out := p.inject(raw)
			if h.zeroInit {
				if len(out) > 0 {
					m.Failf("cksum.accept", "an INIT with a zero checksum was answered with %s", out[0].dec.Summary())
				}
				out = p.inject(w.bytes(true))
			}
			if len(out) == 0 || p.cookie == nil {
				m.Failf("e2.base", "no INIT-ACK")
				c03Teardown(m, p)
				return
			}
			echo := wNewPacket(5000, 5000, p.aTag)
			echo.rawChunk(chunkBytes(wCOOKIEECHO, 0, p.cookie))
			if h.zeroEcho {
				out = p.inject(echo.bytes(false))
				if len(out) > 0 || (m.As[0] != nil) {
					m.Failf("cksum.accept", "a COOKIE-ECHO with a zero checksum was accepted (answer %d packets)", len(out))
				}
			}
			p.inject(echo.bytes(true))
			m.S.Join(p.dialT)
			p.a = m.As[0]
			if p.a == nil {
				m.Failf("e2.base", "handshake did not complete: %v", m.Err[0])
				c03Teardown(m, p)
				return
			}
			// traffic: heartbeat, data both ways
			p.inject(p.pkt(chunkBytes(wHEARTBEAT, 0, wTLVBytes(1, []byte("12345678"), true))))
			s, _ := p.a.OpenStream(2, PayloadTypeWebRTCBinary)
			s.WriteSCTP(payload(2, 0, 300), PayloadTypeWebRTCBinary)
			p.settle(0)
			p.ackAll()
			md, _ := p.a.Metadata()
			if md.ZeroChecksumSendingEnabled != h.expectZC {
				m.Failf("cksum.negotiation", "%s: ZeroChecksumSendingEnabled=%v, want %v", h.name, md.ZeroChecksumSendingEnabled, h.expectZC)
			}
			for _, ev := range m.W.events {
				if ev.Kind == "send" && ev.From == 0 && ev.Pkt.dec != nil {
					d := ev.Pkt.dec
					if d.CksumZero && !h.expectZC {
						m.Failf("cksum.emit", "%s: endpoint emitted a zero checksum (%s) although the peer did not advertise acceptance with the DTLS method", h.name, d.Summary())
					}
					if !d.CksumZero && !d.CksumOK {
						m.Failf("cksum.emit", "%s: endpoint emitted a wrong CRC32c", h.name)
					}
					if d.CksumZero && (d.Chunks[0].Typ == wINIT || d.Chunks[0].Typ == wCOOKIEECHO) {
						m.Failf("cksum.emit", "zero checksum on %s", wTypeName(d.Chunks[0].Typ))
					}
				}
			}
			m.Observe("%s zc=%v", h.name, md.ZeroChecksumSendingEnabled)
			c03Teardown(m, p)
		},
		Final: func(m *Sim, x *Exec) { generalVerdicts(m, x, false) },
	}
}

// c13StrayInitAckScenario: the endpoint is the client.  Before the genuine INIT-ACK a stray
// one arrives that does not belong to the association (SCTP ports of another association)
// and differs in the zero-checksum parameter: it is discarded as a whole - what the endpoint
// sends afterwards follows the genuine INIT-ACK alone.
func c13StrayInitAckScenario(il, enabled, strayZC, realZC bool, strayInit ...bool) *Scenario {
	return &Scenario{
		Name:    "zc-stray-initack",
		Horizon: 60 * time.Second,
		Setup:   func(m *Sim) { m.W.delay = [2]time.Duration{time.Millisecond, time.Millisecond} },
		Body: func(m *Sim) {
			cfg := epCfg{NoInterleave: !il, ZeroChecksum: enabled, MTU: 228, RTOMax: 4000, InitTSN: 91}
			p := newScripted(m, cfg, il, realZC)
			p.dialT = m.Go("dial", func() { m.Dial(0, cfg) })
			out := p.settle(0)
			if len(out) == 0 || out[0].dec == nil || out[0].dec.Chunks[0].Typ != wINIT {
				m.Failf("e2.base", "no INIT")
				c03Teardown(m, p)
				return
			}
			cookie := []byte("cookie-cookie-cookie-cookie-1234")
			iack := func(zc bool) []byte {
				ps := [][]byte{wTLVBytes(7, cookie, true), wTLVBytes(0x8008, []byte{130, 192, 64, 194}[:map[bool]int{false: 2, true: 4}[il]], false)}
				if zc {
					ps = append(ps, wTLVBytes(0x8001, u32(1), true))
				}
				return chunkBytes(wINITACK, 0, wInitVal(p.tag, p.arwnd, 65535, 65535, p.tsn0, ps...))
			}
			if len(strayInit) > 0 && strayInit[0] {
				// a stale INIT of an earlier incarnation of the peer (other tag and TSN, its own
				// zero-checksum declaration) reaches the client while it waits for the INIT-ACK
				ps := [][]byte{wTLVBytes(0x8008, []byte{130, 192, 64, 194}[:map[bool]int{false: 2, true: 4}[il]], false)}
				if strayZC {
					ps = append(ps, wTLVBytes(0x8001, u32(1), true))
				}
				old := wNewPacket(5000, 5000, 0)
				old.rawChunk(chunkBytes(wINIT, 0, wInitVal(p.tag+77, p.arwnd, 65535, 65535, p.tsn0+1000, ps...)))
				p.inject(old.bytes(true))
			} else {
				stray := wNewPacket(5001, 5002, p.aTag)
				stray.rawChunk(iack(strayZC))
				p.inject(stray.bytes(true))
			}
			if len(strayInit) > 2 && strayInit[2] {
				// an INIT-ACK that declares acceptance but carries no State Cookie: it is refused, T1-init
				// runs on and the INIT is sent again - with a correct CRC32c, like every INIT
				ps := [][]byte{wTLVBytes(0x8008, []byte{130, 192, 64, 194}[:map[bool]int{false: 2, true: 4}[il]], false), wTLVBytes(0x8001, u32(1), true)}
				p.inject(p.pkt(chunkBytes(wINITACK, 0, wInitVal(p.tag, p.arwnd, 65535, 65535, p.tsn0, ps...))))
				m.Sleep(1500 * time.Millisecond)
				p.settle(0)
			}
			evGenuine := len(m.W.events) // what the endpoint sends from here on follows the genuine INIT-ACK
			out = p.inject(p.pkt(iack(realZC)))
			gotEcho := false
			for _, o := range out {
				if o.dec != nil && o.dec.Chunks[0].Typ == wCOOKIEECHO {
					gotEcho = true
				}
			}
			if !gotEcho {
				m.Failf("e2.base", "no COOKIE-ECHO after the genuine INIT-ACK")
				c03Teardown(m, p)
				return
			}
			p.inject(p.pkt(chunkBytes(wCOOKIEACK, 0, nil)))
			m.S.Join(p.dialT)
			p.a = m.As[0]
			if p.a == nil {
				m.Failf("e2.base", "handshake did not complete: %v", m.Err[0])
				c03Teardown(m, p)
				return
			}
			if len(strayInit) > 1 && strayInit[1] {
				// a delayed INIT of an earlier incarnation of the peer, declaring acceptance, reaches the
				// established association: it is refused, and it changes nothing about what is sent
				ps := [][]byte{wTLVBytes(0x8008, []byte{130, 192, 64, 194}[:map[bool]int{false: 2, true: 4}[il]], false), wTLVBytes(0x8001, u32(1), true)}
				old := wNewPacket(5000, 5000, 0)
				old.rawChunk(chunkBytes(wINIT, 0, wInitVal(p.tag+77, p.arwnd, 65535, 65535, p.tsn0+1000, ps...)))
				p.inject(old.bytes(true))
			}
			p.inject(p.pkt(chunkBytes(wHEARTBEAT, 0, wTLVBytes(1, []byte("12345678"), true))))
			s, _ := p.a.OpenStream(2, PayloadTypeWebRTCBinary)
			s.WriteSCTP(payload(2, 0, 300), PayloadTypeWebRTCBinary)
			p.settle(0)
			p.ackAll()
			for i, ev := range m.W.events {
				if ev.Kind == "send" && ev.From == 0 && ev.Pkt.dec != nil {
					d := ev.Pkt.dec
					if d.CksumZero && !realZC && i >= evGenuine {
						m.Failf("cksum.emit", "endpoint emitted a zero checksum (%s) after an INIT-ACK that does not declare acceptance: only the stray packet before it did", d.Summary())
					}
					if !d.CksumZero && !d.CksumOK {
						m.Failf("cksum.emit", "endpoint emitted a wrong CRC32c")
					}
					if t := d.Chunks[0].Typ; d.CksumZero && (t == wINIT || t == wCOOKIEECHO) {
						m.Failf("cksum.emit", "endpoint emitted %s with a zero checksum", d.Summary())
					}
				}
			}
			md, _ := p.a.Metadata()
			if md.ZeroChecksumSendingEnabled != realZC {
				m.Failf("cksum.negotiation", "stray packet zc=%v, genuine INIT-ACK zc=%v: ZeroChecksumSendingEnabled=%v", strayZC, realZC, md.ZeroChecksumSendingEnabled)
			}
			m.Observe("zc=%v", md.ZeroChecksumSendingEnabled)
			c03Teardown(m, p)
		},
		Final: func(m *Sim, x *Exec) { generalVerdicts(m, x, false) },
	}
}

// c13RestartedPeerScenario: the client has the INIT-ACK (COOKIE-ECHOED) when an INIT of the
// peer arrives - the peer has restarted with another zero-checksum setting - and the handshake
// is completed by that peer's COOKIE-ECHO.  What the client sends from the INIT on follows
// the INIT's declaration, not the earlier INIT-ACK's.
func c13RestartedPeerScenario(il, firstZC, secondZC bool) *Scenario {
	return &Scenario{
		Name:    "zc-restarted-peer",
		Horizon: 60 * time.Second,
		Setup:   func(m *Sim) { m.W.delay = [2]time.Duration{time.Millisecond, time.Millisecond} },
		Body: func(m *Sim) {
			cfg := epCfg{NoInterleave: !il, MTU: 228, RTOMax: 4000, InitTSN: 91}
			p := newScripted(m, cfg, il, firstZC)
			p.dialT = m.Go("dial", func() { m.Dial(0, cfg) })
			if out := p.settle(0); len(out) == 0 {
				m.Failf("e2.base", "no INIT")
				c03Teardown(m, p)
				return
			}
			cookie := []byte("cookie-cookie-cookie-cookie-1234")
			iack := chunkBytes(wINITACK, 0, wInitVal(p.tag, p.arwnd, 65535, 65535, p.tsn0, append([][]byte{wTLVBytes(7, cookie, true)}, p.initParams()...)...))
			p.inject(p.pkt(iack)) // the client answers with COOKIE-ECHO and waits
			// the peer restarts: new tag, new TSN, other declaration
			p.ourZC = secondZC
			p.tag, p.tsn0 = p.tag+1000, p.tsn0+5000
			p.tsn = p.tsn0
			evInit := len(m.W.events)
			w := wNewPacket(5000, 5000, 0)
			w.rawChunk(chunkBytes(wINIT, 0, wInitVal(p.tag, p.arwnd, 65535, 65535, p.tsn0, p.initParams()...)))
			p.cookie = nil
			if out := p.inject(w.bytes(true)); len(out) == 0 || p.cookie == nil {
				m.Failf("e2.base", "the INIT of the restarted peer was not answered with an INIT-ACK")
				c03Teardown(m, p)
				return
			}
			p.inject(p.pkt(chunkBytes(wCOOKIEECHO, 0, p.cookie)))
			m.S.Join(p.dialT)
			p.a = m.As[0]
			if p.a == nil {
				m.Failf("e2.base", "handshake did not complete: %v", m.Err[0])
				c03Teardown(m, p)
				return
			}
			p.inject(p.pkt(chunkBytes(wHEARTBEAT, 0, wTLVBytes(1, []byte("12345678"), true))))
			s, _ := p.a.OpenStream(2, PayloadTypeWebRTCBinary)
			s.WriteSCTP(payload(2, 0, 300), PayloadTypeWebRTCBinary)
			p.settle(0)
			for i, ev := range m.W.events {
				if i < evInit || ev.Kind != "send" || ev.From != 0 || ev.Pkt.dec == nil {
					continue
				}
				if d := ev.Pkt.dec; d.CksumZero && !secondZC {
					m.Failf("cksum.emit", "endpoint emitted a zero checksum (%s) towards a peer whose INIT does not declare acceptance (the INIT-ACK of its earlier incarnation did)", d.Summary())
				}
			}
			md, _ := p.a.Metadata()
			if md.ZeroChecksumSendingEnabled != secondZC {
				m.Failf("cksum.negotiation", "INIT-ACK zc=%v, then INIT zc=%v: ZeroChecksumSendingEnabled=%v", firstZC, secondZC, md.ZeroChecksumSendingEnabled)
			}
			m.Observe("zc=%v", md.ZeroChecksumSendingEnabled)
			c03Teardown(m, p)
		},
		Final: func(m *Sim, x *Exec) { generalVerdicts(m, x, false) },
	}
}

func propC13(j *Job) {
	twoInitCases(j, "C13")
	for _, il := range []bool{false, true} {
		for _, zz := range [][2]bool{{true, false}, {false, true}} {
			j.Explore(fmt.Sprintf("restarted-peer/il%v/first%v/second%v", il, zz[0], zz[1]), c13RestartedPeerScenario(il, zz[0], zz[1]), Budget{}, nil)
		}
	}
	for _, il := range []bool{false, true} {
		for _, en := range []bool{false, true} {
			for _, zz := range [][2]bool{{true, false}, {false, true}, {true, true}} {
				j.Explore(fmt.Sprintf("stray-initack/il%v/en%v/stray%v/real%v", il, en, zz[0], zz[1]), c13StrayInitAckScenario(il, en, zz[0], zz[1]), Budget{}, nil)
				j.Explore(fmt.Sprintf("stale-init/il%v/en%v/stale%v/real%v", il, en, zz[0], zz[1]), c13StrayInitAckScenario(il, en, zz[0], zz[1], true), Budget{}, nil)
				if !zz[1] {
					j.Explore(fmt.Sprintf("late-init/il%v/en%v", il, en), c13StrayInitAckScenario(il, en, false, false, false, true), Budget{}, nil)
				}
				j.Explore(fmt.Sprintf("initack-nocookie/il%v/en%v/real%v", il, en, zz[1]), c13StrayInitAckScenario(il, en, false, zz[1], false, false, true), Budget{}, nil)
			}
		}
	}
	for _, il := range []bool{false, true} {
		for _, b2b := range []bool{false, true} {
			j.Explore(fmt.Sprintf("collision/il%v/b2b%v", il, b2b), c13CollisionScenario(il, b2b), Budget{D: 1}, nil)
		}
	}
	// start from out-of-band tokens (SNAP): each side sends zero checksums iff the *other*
	// side's token advertises acceptance, in all four combinations
	for opt := 0; opt < 4; opt++ {
		a := epCfg{ZeroChecksum: opt&1 != 0, RTOMax: 4000, InitTSN: 0xFFFFFFFE, MTU: 228}
		b := epCfg{ZeroChecksum: opt&2 != 0, RTOMax: 4000, InitTSN: 5, MTU: 228}
		j.Explore(fmt.Sprintf("snap/zcA%v/zcB%v", a.ZeroChecksum, b.ZeroChecksum), hsScenario(&hsSpec{A: a, B: b, SNAP: true}), Budget{}, nil)
	}
	c13Matrix(j)
	// corruption: batches of bit flips
	batch := 400
	total := 11 * 90 * 8 // upper bound on single-bit variants
	for _, zc := range []bool{false, true} {
		for _, il := range []bool{false, true} {
			if !j.Thorough() && zc != il {
				continue
			}
			for from := 0; from < total; from += batch {
				j.Explore(fmt.Sprintf("corrupt1/zc%v/il%v/%d", zc, il, from), c13CorruptionScenario(zc, il, from, from+batch, false), Budget{}, nil)
				if j.capped() {
					return
				}
			}
		}
	}
	if j.Thorough() {
		tot2 := 11 * 90 * 8 * 128
		for from := 0; from < tot2; from += 4000 {
			j.Explore(fmt.Sprintf("corrupt2/%d", from), c13CorruptionScenario(true, false, from, from+4000, true), Budget{}, nil)
			if j.capped() {
				return
			}
		}
	}
	// handshake rules
	zcParam := func(edmid uint32) []byte { return wTLVBytes(0x8001, u32(edmid), true) }
	hss := []c13HS{
		{name: "none", expectZC: false},
		{name: "dtls", peerParam: zcParam(1), expectZC: true},
		{name: "edmid0", peerParam: zcParam(0), expectZC: false},
		{name: "edmid2", peerParam: zcParam(2), expectZC: false},
		{name: "edmid-max", peerParam: zcParam(0xFFFFFFFF), expectZC: false},
		{name: "twice-dtls-then-2", peerParam: cat(zcParam(1), zcParam(2)), expectZC: false},
		{name: "zero-echo", enabled: true, peerParam: zcParam(1), expectZC: true, zeroEcho: true},
		{name: "zero-echo-disabled", enabled: false, expectZC: false, zeroEcho: true},
		{name: "zero-init", enabled: true, expectZC: false, zeroInit: true},
	}
	for _, h := range hss {
		for _, il := range []bool{false, true} {
			for _, en := range []bool{false, true} {
				hh := h
				if !h.zeroEcho && !h.zeroInit {
					hh.enabled = en
				} else if en {
					continue
				}
				j.Explore(fmt.Sprintf("hs/%s/il%v/en%v", h.name, il, hh.enabled), c13HSScenario(hh, il), Budget{}, nil)
			}
		}
	}
	// emission over complete two-endpoint runs in all four option combinations
	modes := stdModes()
	var cases []xferCase
	for opt := 0; opt < 4; opt++ {
		for _, mode := range modes[:2] {
			mm := mode
			mm.A.ZeroChecksum = opt&1 != 0
			mm.B.ZeroChecksum = opt&2 != 0
			mm.Name = fmt.Sprintf("%s-zc%d", mode.Name, opt)
			cases = append(cases, famW1([]modeSpec{mm}, []uint32{0}, 1)...)
			cases = append(cases, famW5([]modeSpec{mm}, 1)...)
		}
	}
	runCases(j, cases, func(spec *xferSpec) func(m *Sim, x *Exec, r *xferResult) {
		return deliveryFinal(spec, false, monOpts{Cksum: true})
	})
}

// c13CollisionScenario: simultaneous open against a scripted peer that advertises zero
// checksum acceptance.  The peer's INIT-ACK and its COOKIE-ECHO reach the endpoint back to
// back, so the endpoint is established (by the peer's COOKIE-ECHO) before its own COOKIE-ECHO
// has been serialised: INIT and COOKIE-ECHO must carry a real CRC32c whatever the state.
func c13CollisionScenario(il bool, backToBack bool) *Scenario {
	return &Scenario{
		Name:    "zc-collision",
		Horizon: 60 * time.Second,
		Setup:   func(m *Sim) { m.W.delay = [2]time.Duration{time.Millisecond, time.Millisecond} },
		Body: func(m *Sim) {
			cfg := epCfg{NoInterleave: !il, ZeroChecksum: true, MTU: 228, RTOMax: 4000, InitTSN: 77}
			p := newScripted(m, cfg, il, true)
			p.dialT = m.Go("dial", func() { m.Dial(0, cfg) })
			out := p.settle(0)
			if len(out) == 0 || out[0].dec == nil || out[0].dec.Chunks[0].Typ != wINIT {
				m.Failf("e2.base", "no INIT from the dialling endpoint")
				c03Teardown(m, p)
				return
			}
			// our own INIT crosses theirs: they answer with INIT-ACK and a cookie
			init := chunkBytes(wINIT, 0, wInitVal(p.tag, p.arwnd, 65535, 65535, p.tsn0, p.initParams()...))
			w := wNewPacket(5000, 5000, 0)
			w.rawChunk(init)
			p.cookie = nil
			p.inject(w.bytes(true))
			if p.cookie == nil {
				m.Failf("e2.base", "no INIT-ACK for the crossing INIT")
				c03Teardown(m, p)
				return
			}
			theirCookie := p.cookie
			ours := []byte("cookie-cookie-cookie-cookie-5678")
			iack := p.pkt(chunkBytes(wINITACK, 0, wInitVal(p.tag, p.arwnd, 65535, 65535, p.tsn0, append([][]byte{wTLVBytes(7, ours, true)}, p.initParams()...)...)))
			echo := p.pkt(chunkBytes(wCOOKIEECHO, 0, theirCookie))
			if backToBack {
				m.W.inject(0, iack)
				m.W.inject(0, echo)
				p.settle(0)
			} else {
				p.inject(iack)
				p.inject(echo)
			}
			p.inject(p.pkt(chunkBytes(wCOOKIEACK, 0, nil)))
			m.WaitUntil("dial-done", 5*time.Second, func() bool { return p.dialT.Done })
			p.a = m.As[0]
			if p.a == nil {
				m.Failf("e2.base", "simultaneous open did not complete: %v", m.Err[0])
				c03Teardown(m, p)
				return
			}
			for _, ev := range m.W.events {
				if ev.Kind == "send" && ev.From == 0 && ev.Pkt.dec != nil {
					d := ev.Pkt.dec
					if !d.CksumZero && !d.CksumOK {
						m.Failf("cksum.emit", "endpoint emitted a wrong CRC32c (%s)", d.Summary())
					}
					for _, c := range d.Chunks {
						if d.CksumZero && (c.Typ == wINIT || c.Typ == wCOOKIEECHO) {
							m.Failf("cksum.emit", "zero checksum on a packet carrying %s (sent at %v, association state established=%v)", wTypeName(c.Typ), ev.At, true)
						}
					}
				}
			}
			m.Observe("collision il=%v b2b=%v", il, backToBack)
			c03Teardown(m, p)
		},
		Final: func(m *Sim, x *Exec) { generalVerdicts(m, x, false) },
	}
}
