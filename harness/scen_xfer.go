package sctp

import (
	"fmt"
	"sort"
	"strings"
	"time"

	"github.com/pion/sctp/internal/vsched"
)

// Generic two-endpoint transfer scenario shared by C01/C02/C06/C07/C15/C16.

type msgSpec struct {
	Size int
	PPI  PayloadProtocolIdentifier
	// Rel, when set, re-configures the stream before this message is written.
	Rel *relParams
}

type relParams struct {
	Unordered bool
	Type      byte
	Val       uint32
}

// killRule: drop the first N transmissions of fragment Frag (-1: every fragment) of message Msg of stream SID.
type killRule struct {
	SID  uint16
	Msg  int
	Frag int
	N    int
}

type streamSpec struct {
	SID       uint16
	From      int // 0: A->B, 1: B->A
	Unordered bool
	RelType   byte
	RelVal    uint32
	Msgs      []msgSpec
	// RecvSameCfg: the receiver configures its stream object like the sender's.
	RecvSameCfg bool
	// RecvOpposite: the receiver configures its own sending policy with the opposite ordering.
	RecvOpposite bool
	// Gap between writes (virtual), 0 = back to back.
	Gap time.Duration
}

type xferSpec struct {
	A, B        epCfg
	Streams     []streamSpec
	Faults      faultSet
	FaultDir    *[2]bool
	Delay       time.Duration
	ReadBuf     int
	PauseReader time.Duration
	Horizon     time.Duration
	DrainWait   time.Duration
	// KillTSN: drop the first KillN transmissions of the KillIdx-th DATA TSN sent by A (deterministic "kill" unit).
	KillIdx []int
	KillN   int
	Kill    []killRule
	// Hook run on main after connect (before writers start).
	AfterConnect func(m *Sim)
	// Extra final oracle.
	Final              func(m *Sim, x *Exec, r *xferResult)
	NoFaultOnHandshake bool
	// Interleave: one writer thread per endpoint writes message i of every stream in turn.
	Interleave     bool
	WriteGap       time.Duration // Interleave: pause between rounds
	NoSackComplete bool
	BeforeClose    func(m *Sim, r *xferResult)
	OnSendStream   func(m *Sim, st streamSpec, s *Stream)
	// PreOpen: the receiving side opens every stream itself before traffic starts (no
	// AcceptStream); SSNStart/MIDStart are installed as the sequence cursors on both sides.
	PreOpen  bool
	SSNStart uint16
	MIDStart uint32
	// SuspendTimers: after the handshake, every timer expiry may be postponed (one schedule
	// deviation) until the next packet delivery has been processed.
	SuspendTimers bool
	WriteTimeout  time.Duration // blocking-write mode: SetWriteDeadline before each write
	ReaderDone    func(m *Sim, sid uint16)
	// SNAP: both sides are set up from exchanged out-of-band tokens (no handshake on the wire)
	SNAP bool
}

type wroteMsg struct {
	Idx  int
	Data string
	PPI  PayloadProtocolIdentifier
	Err  error
	At   time.Duration
}

type xferResult struct {
	Written    map[uint16][]wroteMsg
	Read       map[uint16][]rmsg
	ReadErr    map[uint16]error
	Accepted   map[uint16]bool
	Connected  bool
	Drained    bool
	DrainAt    time.Duration
	HealAt     time.Duration
	DoneAt     time.Duration
	CloseAt    time.Duration // when the teardown began (reads after that were only released by it)
	BufAtDrain [2]int
}

func (r *xferResult) init() {
	r.Written = map[uint16][]wroteMsg{}
	r.Read = map[uint16][]rmsg{}
	r.ReadErr = map[uint16]error{}
	r.Accepted = map[uint16]bool{}
}

func drained(a *Association) bool {
	return a == nil || (a.pendingQueue.size() == 0 && a.inflightQueue.size() == 0)
}

// WaitUntil parks the calling harness thread until pred holds (evaluated by the scheduler
// at quiescent points) or the virtual timeout elapses; it reports whether pred held.
func (m *Sim) WaitUntil(name string, timeout time.Duration, pred func() bool) bool {
	deadline := time.Now().Add(timeout)
	if timeout > 0 {
		s := m.S
		tm := time.AfterFunc(timeout, func() { s.Poke() })
		defer tm.Stop()
	}
	ok := false
	m.S.Point(vsched.OpJoin, name, func() bool {
		if pred() {
			return true
		}
		return timeout > 0 && !time.Now().Before(deadline)
	}, func(*vsched.Thread) { ok = pred() })
	return ok
}

func isReliable(st streamSpec) bool { return st.RelType == ReliabilityTypeReliable }

// xferScenario builds the scenario; res receives the observations of the last run.
func xferScenario(spec *xferSpec, res *xferResult) *Scenario {
	hz := spec.Horizon
	if hz == 0 {
		hz = 120 * time.Second
	}
	drainWait := spec.DrainWait
	if drainWait == 0 {
		drainWait = 60 * time.Second
	}
	readBuf := spec.ReadBuf
	if readBuf == 0 {
		readBuf = 70000
	}
	steps := 0
	for _, st := range spec.Streams {
		if n := 60 * len(st.Msgs); n > 150000 {
			steps += n
		}
	}
	return &Scenario{
		Name:     "xfer",
		Horizon:  hz,
		MaxSteps: steps,
		Setup: func(m *Sim) {
			*res = xferResult{}
			res.init()
			if spec.Delay != 0 {
				m.W.delay = [2]time.Duration{spec.Delay, spec.Delay}
			}
			m.W.faults = spec.Faults
			m.W.onQuiescent = m.invariantsAll
			if spec.FaultDir != nil {
				m.W.faultDir = *spec.FaultDir
			}
			if len(spec.KillIdx) > 0 {
				installKill(m, spec)
			}
			if len(spec.Kill) > 0 {
				installKillRules(m, spec)
			}
		},
		Body: func(m *Sim) {
			if spec.SNAP {
				m.snapConnect(spec.A, spec.B)
				if m.Err[0] != nil || m.Err[1] != nil || m.As[0] == nil || m.As[1] == nil {
					m.CloseBoth()
					return
				}
			} else if !m.Connect(spec.A, spec.B) {
				m.CloseBoth()
				return
			}
			res.Connected = true
			m.W.faultsOn = true
			if spec.SuspendTimers {
				m.S.SuspendTimers = true
			}
			if spec.AfterConnect != nil {
				spec.AfterConnect(m)
			}
			var mu = &m.mu
			nIn := [2]int{}
			for _, st := range spec.Streams {
				nIn[1-st.From]++
			}
			specBySID := map[uint16]streamSpec{}
			for _, st := range spec.Streams {
				specBySID[st.SID] = st
			}
			var readers []*vsched.Thread
			var acceptors []*vsched.Thread
			startReader := func(ep int, sid uint16, s *Stream) {
				rt := m.Go(fmt.Sprintf("read%d.%d", ep, sid), func() {
					if spec.PauseReader > 0 {
						m.Sleep(spec.PauseReader)
					}
					buf := make([]byte, readBuf)
					for {
						n, ppi, err := s.ReadSCTP(buf)
						if err != nil {
							mu.Lock()
							res.ReadErr[sid] = err
							mu.Unlock()
							return
						}
						mu.Lock()
						res.Read[sid] = append(res.Read[sid], rmsg{Data: string(buf[:n]), PPI: ppi, At: m.S.Now()})
						mu.Unlock()
						m.Logf(fmt.Sprintf("read sid=%d", sid), "n=%d ppi=%d", n, ppi)
					}
				})
				mu.Lock()
				readers = append(readers, rt)
				mu.Unlock()
			}
			if spec.PreOpen {
				for _, st := range spec.Streams {
					rs, err := m.As[1-st.From].OpenStream(st.SID, PayloadTypeWebRTCBinary)
					if err != nil {
						continue
					}
					rs.reassemblyQueue.nextSSN = spec.SSNStart
					rs.reassemblyQueue.nextMID = spec.MIDStart
					m.streamsSeen = append(m.streamsSeen, rs)
					res.Accepted[st.SID] = true
					startReader(1-st.From, st.SID, rs)
				}
				nIn = [2]int{}
			}
			for ep := 0; ep < 2; ep++ {
				if nIn[ep] == 0 {
					continue
				}
				ep := ep
				acceptors = append(acceptors, m.Go(fmt.Sprintf("accept%d", ep), func() {
					for n := 0; n < nIn[ep]; n++ {
						s, err := m.As[ep].AcceptStream()
						if err != nil {
							return
						}
						sid := s.StreamIdentifier()
						mu.Lock()
						res.Accepted[sid] = true
						m.streamsSeen = append(m.streamsSeen, s)
						mu.Unlock()
						if st, ok := specBySID[sid]; ok && st.RecvSameCfg {
							s.SetReliabilityParams(st.Unordered, st.RelType, st.RelVal)
						} else if ok && st.RecvOpposite {
							s.SetReliabilityParams(!st.Unordered, st.RelType, st.RelVal)
						}
						rt := m.Go(fmt.Sprintf("read%d.%d", ep, sid), func() {
							if spec.PauseReader > 0 {
								m.Sleep(spec.PauseReader)
							}
							buf := make([]byte, readBuf)
							for {
								n, ppi, err := s.ReadSCTP(buf)
								if err != nil {
									mu.Lock()
									res.ReadErr[sid] = err
									mu.Unlock()
									return
								}
								mu.Lock()
								res.Read[sid] = append(res.Read[sid], rmsg{Data: string(buf[:n]), PPI: ppi, At: m.S.Now()})
								mu.Unlock()
								m.Logf(fmt.Sprintf("read sid=%d", sid), "n=%d ppi=%d", n, ppi)
							}
						})
						mu.Lock()
						readers = append(readers, rt)
						mu.Unlock()
					}
				}))
			}
			var writers []*vsched.Thread
			writeOne := func(s *Stream, st streamSpec, i int) {
				ms := st.Msgs[i]
				if ms.Rel != nil {
					s.SetReliabilityParams(ms.Rel.Unordered, ms.Rel.Type, ms.Rel.Val)
				}
				data := payload(st.SID, i, ms.Size)
				if spec.WriteTimeout > 0 {
					_ = s.SetWriteDeadline(time.Now().Add(spec.WriteTimeout))
				}
				mu.Lock()
				m.inWrite[s] = ms.Size
				m.inWriteID[s]++
				wid := m.inWriteID[s]
				mu.Unlock()
				n, err := s.WriteSCTP(data, ms.PPI)
				mu.Lock()
				delete(m.inWrite, s)
				if err == nil {
					m.wroteBytes[s] += n
				} else {
					if m.failedWrite[s] == nil {
						m.failedWrite[s] = map[int]bool{}
					}
					m.failedWrite[s][wid] = true
				}
				mu.Unlock()
				m.Logf(fmt.Sprintf("write sid=%d #%d len=%d ppi=%d", st.SID, i, ms.Size, ms.PPI), "n=%d err=%v", n, err)
				mu.Lock()
				res.Written[st.SID] = append(res.Written[st.SID], wroteMsg{Idx: i, Data: string(data), PPI: ms.PPI, Err: err, At: m.S.Now()})
				mu.Unlock()
				m.S.Yield()
			}
			openFor := func(st streamSpec) *Stream {
				s, err := m.As[st.From].OpenStream(st.SID, PayloadTypeWebRTCBinary)
				if err != nil {
					m.Logf("open", "sid=%d err=%v", st.SID, err)
					return nil
				}
				mu.Lock()
				m.streamsSeen = append(m.streamsSeen, s)
				mu.Unlock()
				s.SetReliabilityParams(st.Unordered, st.RelType, st.RelVal)
				if spec.PreOpen {
					s.sequenceNumber = spec.SSNStart
					s.nextOrderedMID = spec.MIDStart
					s.nextUnorderedMID = spec.MIDStart
				}
				if spec.OnSendStream != nil {
					spec.OnSendStream(m, st, s)
				}
				return s
			}
			if spec.Interleave {
				for ep := 0; ep < 2; ep++ {
					ep := ep
					var sts []streamSpec
					for _, st := range spec.Streams {
						if st.From == ep {
							sts = append(sts, st)
						}
					}
					if len(sts) == 0 {
						continue
					}
					writers = append(writers, m.Go(fmt.Sprintf("writeall%d", ep), func() {
						ss := make([]*Stream, len(sts))
						for i, st := range sts {
							ss[i] = openFor(st)
						}
						for i := 0; ; i++ {
							if i > 0 && spec.WriteGap > 0 {
								m.Sleep(spec.WriteGap)
							}
							any := false
							for k, st := range sts {
								if i < len(st.Msgs) && ss[k] != nil {
									any = true
									writeOne(ss[k], st, i)
								}
							}
							if !any {
								break
							}
						}
					}))
				}
			} else {
				for _, st := range spec.Streams {
					st := st
					writers = append(writers, m.Go(fmt.Sprintf("write%d.%d", st.From, st.SID), func() {
						s := openFor(st)
						if s == nil {
							return
						}
						for i := range st.Msgs {
							if st.Gap > 0 && i > 0 {
								m.Sleep(st.Gap)
							}
							writeOne(s, st, i)
						}
					}))
				}
			}
			m.Join(writers...)
			// wait for the senders to drain and for every reliable message to be read
			allRead := func() bool {
				for _, st := range spec.Streams {
					if !isReliable(st) {
						continue
					}
					want := 0
					for _, w := range res.Written[st.SID] {
						if w.Err == nil && len(w.Data) > 0 {
							want++
						}
					}
					if len(res.Read[st.SID]) < want {
						return false
					}
				}
				return true
			}
			res.Drained = m.WaitUntil("drain", drainWait, func() bool {
				return drained(m.As[0]) && drained(m.As[1]) && m.W.idle() && allRead()
			})
			res.DrainAt = m.S.Now()
			if res.Drained {
				// settle: delayed SACKs, FORWARD-TSN answers
				m.Sleep(500 * time.Millisecond)
				m.WaitUntil("settle", 5*time.Second, func() bool { return m.W.idle() })
			}
			if spec.BeforeClose != nil {
				spec.BeforeClose(m, res)
			}
			res.CloseAt = m.S.Now()
			m.CloseBoth()
			res.DoneAt = m.S.Now()
			m.Join(acceptors...)
			mu.Lock()
			rs := append([]*vsched.Thread(nil), readers...)
			mu.Unlock()
			m.Join(rs...)
		},
		Final: func(m *Sim, x *Exec) {
			if spec.Final != nil {
				spec.Final(m, x, res)
			}
		},
	}
}

// fragKey identifies a fragment by its bytes (payloads are pairwise distinct by construction).
type fragID struct {
	SID  uint16
	Msg  int
	Frag int
}

func fragTable(spec *xferSpec) map[string]fragID {
	tab := map[string]fragID{}
	for _, st := range spec.Streams {
		cfg := spec.A
		if st.From == 1 {
			cfg = spec.B
		}
		mtu := cfg.MTU
		if mtu == 0 {
			mtu = initialMTU
		}
		il := !spec.A.NoInterleave && !spec.B.NoInterleave
		P := int(maxPayloadSizeForMTU(mtu, il))
		for i, ms := range st.Msgs {
			data := payload(st.SID, i, ms.Size)
			for f := 0; f*P < len(data); f++ {
				end := (f + 1) * P
				if end > len(data) {
					end = len(data)
				}
				tab[fmt.Sprintf("%d/%s", st.SID, data[f*P:end])] = fragID{st.SID, i, f}
			}
		}
	}
	return tab
}

func installKillRules(m *Sim, spec *xferSpec) {
	tab := fragTable(spec)
	count := map[fragID]int{}
	m.W.killFn = func(p *wpkt) bool {
		if p.dec == nil {
			return false
		}
		kill := false
		for _, c := range p.dec.Chunks {
			if c.Typ != wDATA && c.Typ != wIDATA {
				continue
			}
			id, ok := tab[fmt.Sprintf("%d/%s", c.SID, c.Data)]
			if !ok {
				continue
			}
			for _, r := range spec.Kill {
				if r.SID == id.SID && r.Msg == id.Msg && (r.Frag < 0 || r.Frag == id.Frag) {
					count[id]++
					if count[id] <= r.N {
						kill = true
					}
				}
			}
		}
		return kill
	}
}

// installKill makes the wire drop the first KillN transmissions of selected TSNs sent by A.
func installKill(m *Sim, spec *xferSpec) {
	seenTSN := map[uint32]int{} // tsn -> order of first appearance
	count := map[uint32]int{}
	m.W.killFn = func(p *wpkt) bool {
		if p.from != 0 || p.dec == nil {
			return false
		}
		kill := false
		hasOther := false
		for _, c := range p.dec.Chunks {
			if c.Typ != wDATA && c.Typ != wIDATA {
				continue
			}
			if _, ok := seenTSN[c.TSN]; !ok {
				seenTSN[c.TSN] = len(seenTSN)
			}
			idx := seenTSN[c.TSN]
			sel := false
			for _, k := range spec.KillIdx {
				if k == idx {
					sel = true
				}
			}
			if sel {
				count[c.TSN]++
				if count[c.TSN] <= spec.KillN {
					kill = true
				}
			} else {
				hasOther = true
			}
		}
		_ = hasOther
		return kill
	}
}

// ---------------------------------------------------------------------------------
// delivery oracle

func shortData(s string) string {
	if len(s) > 12 {
		return fmt.Sprintf("%x..(%d)", s[:6], len(s))
	}
	return fmt.Sprintf("%x", s)
}

func msgID(written []wroteMsg, r rmsg) int {
	for _, w := range written {
		if w.Data == r.Data && w.PPI == r.PPI {
			return w.Idx
		}
	}
	return -1
}

// checkDelivery applies the delivery rules of C01 (reliable ordered) and C06 (other policies)
// to one stream.  abandonedOK lists message indices the sender legitimately gave up on
// (nil = derive nothing: for partially reliable streams any accepted message may be missing).
func checkDelivery(m *Sim, oracle string, st streamSpec, written []wroteMsg, read []rmsg, complete bool) {
	var acc []wroteMsg
	for _, w := range written {
		if w.Err == nil && len(w.Data) > 0 {
			acc = append(acc, w)
		}
	}
	// every delivered message is byte-for-byte one written message with its PPI, at most once
	seen := map[int]int{}
	var ids []int
	for i, r := range read {
		id := msgID(acc, r)
		if id < 0 {
			m.Failf(oracle, "stream %d: read #%d (%s ppi=%d) is not any written message (fragment/splice/alteration)", st.SID, i, shortData(r.Data), r.PPI)
			return
		}
		seen[id]++
		if seen[id] > 1 {
			m.Failf(oracle, "stream %d: message %d delivered %d times", st.SID, id, seen[id])
			return
		}
		ids = append(ids, id)
	}
	// per-message ordering: stream default, per-message overrides, DCEP always ordered
	isOrdered := func(id int) bool {
		u := st.Unordered
		for i := 0; i <= id && i < len(st.Msgs); i++ {
			if r := st.Msgs[i].Rel; r != nil {
				u = r.Unordered
			}
		}
		if id < len(st.Msgs) && st.Msgs[id].PPI == PayloadTypeWebRTCDCEP {
			u = false
		}
		return !u
	}
	last := -1
	for _, id := range ids {
		if !isOrdered(id) {
			continue
		}
		if id < last {
			m.Failf(oracle, "stream %d: ordered messages delivered as %v, not a subsequence of the write order", st.SID, ids)
			return
		}
		last = id
	}
	if complete && isReliable(st) {
		if len(ids) != len(acc) {
			m.Failf(oracle, "stream %d (reliable): %d of %d accepted messages delivered (%v)", st.SID, len(ids), len(acc), ids)
			return
		}
	}
	if complete {
		// DCEP is always reliable
		for _, w := range acc {
			if w.PPI == PayloadTypeWebRTCDCEP && seen[w.Idx] == 0 {
				m.Failf(oracle, "stream %d: DCEP message %d not delivered", st.SID, w.Idx)
				return
			}
		}
	}
}

func indexOf(acc []wroteMsg, id int) int {
	for i, w := range acc {
		if w.Idx == id {
			return i
		}
	}
	return 0
}

func deliverySummary(spec *xferSpec, r *xferResult) string {
	var parts []string
	for _, st := range spec.Streams {
		var ids []string
		for _, rm := range r.Read[st.SID] {
			ids = append(ids, fmt.Sprint(msgID(r.Written[st.SID], rm)))
		}
		parts = append(parts, fmt.Sprintf("s%d:[%s]", st.SID, strings.Join(ids, ",")))
	}
	sort.Strings(parts)
	return strings.Join(parts, " ")
}

// lateReads: every reader of these scenarios is parked in ReadSCTP from the start, so a
// message is read in the instant it becomes deliverable.  A message that is handed over only
// when the association is torn down (Close wakes every reader, which then drains the queue)
// had been sitting deliverable in the reassembly queue without its reader being woken.
func lateReads(m *Sim, spec *xferSpec, r *xferResult) {
	if r.CloseAt == 0 || !r.Drained || spec.PauseReader > 0 {
		return
	}
	for _, st := range spec.Streams {
		for i, rm := range r.Read[st.SID] {
			if rm.At >= r.CloseAt && rm.At != 0 {
				m.Failf("delivery.late", "stream %d: message %d (%d bytes) was handed to the reader blocked in ReadSCTP only at %v, when the association was closed (it had been complete and deliverable since before %v)", st.SID, i, len(rm.Data), rm.At, r.CloseAt)
				break
			}
		}
	}
}
