package sctp

import (
	"encoding/binary"
	"bytes"
	"fmt"
	"reflect"
)

func init() { register("C12", propC12) }

// A codec sample: a chunk built from pion's own structures together with a checker for
// what the independent decoder must see.
type codecSample struct {
	name   string
	mk     func() chunk
	expect func(c *wChunk) string // "" = as built
	core   bool
}

func bytesN(n int, seed byte) []byte {
	b := make([]byte, n)
	for i := range b {
		b[i] = seed + byte(i*3+1)
	}
	return b
}

func eqBytes(a, b []byte) bool { return bytes.Equal(a, b) }

func codecSamples() []codecSample {
	var out []codecSample
	add := func(name string, core bool, mk func() chunk, expect func(c *wChunk) string) {
		out = append(out, codecSample{name: name, mk: mk, expect: expect, core: core})
	}
	// DATA / I-DATA
	for _, tsn := range []uint32{0, 1, 0x7fffffff, 0xffffffff} {
		for _, n := range []int{1, 3, 4, 5, 64} {
			for fl := 0; fl < 16; fl += 5 { // 0,5,10,15 : flag mixes
				tsn, n, fl := tsn, n, fl
				u, b, e, i := fl&4 != 0, fl&2 != 0, fl&1 != 0, fl&8 != 0
				core := tsn == 1 && (n == 3 || n == 4) && (fl == 15 || fl == 0)
				add(fmt.Sprintf("DATA/tsn%d/n%d/f%d", tsn, n, fl), core, func() chunk {
					return &chunkPayloadData{tsn: tsn, streamIdentifier: 65535, streamSequenceNumber: 7, payloadType: 51, userData: bytesN(n, 9),
						unordered: u, beginningFragment: b, endingFragment: e, immediateSack: i}
				}, func(c *wChunk) string {
					if c.Typ != wDATA || c.TSN != tsn || c.SID != 65535 || c.SSN != 7 || c.PPI != 51 || !eqBytes(c.Data, bytesN(n, 9)) || c.U != u || c.B != b || c.E != e || c.I != i {
						return fmt.Sprintf("decoded %s", c.Summary())
					}
					return ""
				})
				add(fmt.Sprintf("IDATA/tsn%d/n%d/f%d", tsn, n, fl), core, func() chunk {
					return &chunkPayloadData{iData: true, tsn: tsn, streamIdentifier: 3, messageIdentifier: 0xfffffffe, fragmentSequenceNumber: 5, payloadType: 53, userData: bytesN(n, 1),
						unordered: u, beginningFragment: b, endingFragment: e, immediateSack: i}
				}, func(c *wChunk) string {
					okPF := (b && c.PPI == 53 && c.FSN == 0) || (!b && c.FSN == 5 && c.PPI == 0)
					if c.Typ != wIDATA || c.TSN != tsn || c.SID != 3 || c.MID != 0xfffffffe || !okPF || !eqBytes(c.Data, bytesN(n, 1)) || c.U != u || c.B != b || c.E != e || c.I != i {
						return fmt.Sprintf("decoded %s", c.Summary())
					}
					return ""
				})
			}
		}
	}
	// INIT / INIT-ACK with parameter mixes
	paramSets := []struct {
		name string
		mk   func() []param
		want []wTLV
	}{
		{"none", func() []param { return nil }, nil},
		{"ext0", func() []param { return []param{&paramSupportedExtensions{}} }, []wTLV{{0x8008, []byte{}}}},
		{"ext2+zc", func() []param {
			return []param{&paramSupportedExtensions{ChunkTypes: []chunkType{ctReconfig, ctForwardTSN}}, &paramZeroChecksumAcceptable{edmid: 1}}
		}, []wTLV{{0x8008, []byte{130, 192}}, {0x8001, []byte{0, 0, 0, 1}}}},
		{"cookie5+ext3", func() []param {
			return []param{&paramStateCookie{cookie: bytesN(5, 4)}, &paramSupportedExtensions{ChunkTypes: []chunkType{ctReconfig, ctIData, ctIForwardTSN}}}
		}, []wTLV{{7, bytesN(5, 4)}, {0x8008, []byte{130, 64, 194}}}},
		{"cookie32+zc0+fwd", func() []param {
			return []param{&paramStateCookie{cookie: bytesN(32, 7)}, &paramZeroChecksumAcceptable{edmid: 0}, &paramForwardTSNSupported{}}
		}, []wTLV{{7, bytesN(32, 7)}, {0x8001, []byte{0, 0, 0, 0}}, {0xC000, []byte{}}}},
		{"random3+chunklist1+hmac", func() []param {
			return []param{&paramRandom{randomData: bytesN(3, 2)}, &paramChunkList{chunkTypes: []chunkType{ctSack}}, &paramRequestedHMACAlgorithm{availableAlgorithms: []hmacAlgorithm{hmacSHA256, hmacSHA128}}, &paramECNCapable{}}
		}, []wTLV{{0x8002, bytesN(3, 2)}, {0x8003, []byte{3}}, {0x8004, []byte{0, 3, 0, 1}}, {0x8000, []byte{}}}},
	}
	for _, ps := range paramSets {
		ps := ps
		for _, ack := range []bool{false, true} {
			ack := ack
			name := "INIT/"
			if ack {
				name = "INITACK/"
			}
			add(name+ps.name, ps.name == "ext2+zc" || ps.name == "cookie5+ext3", func() chunk {
				common := chunkInitCommon{initiateTag: 0xdeadbeef, advertisedReceiverWindowCredit: 1500, numOutboundStreams: 1, numInboundStreams: 65535, initialTSN: 0xffffffff, params: ps.mk()}
				if ack {
					return &chunkInitAck{chunkInitCommon: common}
				}
				return &chunkInit{chunkInitCommon: common}
			}, func(c *wChunk) string {
				wantT := uint8(wINIT)
				if ack {
					wantT = wINITACK
				}
				if c.Typ != wantT || c.InitTag != 0xdeadbeef || c.ARwnd != 1500 || c.OS != 1 || c.MIS != 65535 || c.InitTSN != 0xffffffff {
					return "fixed fields: " + c.Summary()
				}
				if len(c.Params) != len(ps.want) {
					return fmt.Sprintf("params %s want %d", tlvTypes(c.Params), len(ps.want))
				}
				for i := range ps.want {
					if c.Params[i].Typ != ps.want[i].Typ || !eqBytes(c.Params[i].Val, ps.want[i].Val) {
						return fmt.Sprintf("param %d: %d/%x want %d/%x", i, c.Params[i].Typ, c.Params[i].Val, ps.want[i].Typ, ps.want[i].Val)
					}
				}
				return ""
			})
		}
	}
	// SACK
	for ng := 0; ng <= 3; ng++ {
		for nd := 0; nd <= 3; nd++ {
			ng, nd := ng, nd
			gaps := []gapAckBlock{{1, 1}, {3, 65535}, {2, 2}}[:ng]
			dups := []uint32{0, 0xffffffff, 5}[:nd]
			add(fmt.Sprintf("SACK/g%d/d%d", ng, nd), (ng == 0 && nd == 0) || (ng == 2 && nd == 1), func() chunk {
				return &chunkSelectiveAck{cumulativeTSNAck: 0xfffffffe, advertisedReceiverWindowCredit: 7, gapAckBlocks: append([]gapAckBlock(nil), gaps...), duplicateTSN: append([]uint32(nil), dups...)}
			}, func(c *wChunk) string {
				if c.Typ != wSACK || c.CumAck != 0xfffffffe || c.ARwnd != 7 || len(c.Gaps) != ng || len(c.Dups) != nd {
					return c.Summary()
				}
				for i := range gaps {
					if c.Gaps[i].Start != gaps[i].start || c.Gaps[i].End != gaps[i].end {
						return c.Summary()
					}
				}
				for i := range dups {
					if c.Dups[i] != dups[i] {
						return c.Summary()
					}
				}
				return ""
			})
		}
	}
	// HEARTBEAT / HEARTBEAT-ACK
	for _, n := range []int{0, 8, 5} {
		n := n
		add(fmt.Sprintf("HEARTBEAT/info%d", n), n == 8, func() chunk {
			return &chunkHeartbeat{chunkHeader: chunkHeader{typ: ctHeartbeat}, params: []param{&paramHeartbeatInfo{heartbeatInformation: bytesN(n, 3)}}}
		}, func(c *wChunk) string {
			if c.Typ != wHEARTBEAT || len(c.Params) != 1 || c.Params[0].Typ != 1 || !eqBytes(c.Params[0].Val, bytesN(n, 3)) {
				return fmt.Sprintf("%s params=%s", c.Summary(), tlvTypes(c.Params))
			}
			return ""
		})
		add(fmt.Sprintf("HBACK/info%d", n), n == 8, func() chunk {
			return &chunkHeartbeatAck{params: []param{&paramHeartbeatInfo{heartbeatInformation: bytesN(n, 3)}}}
		}, func(c *wChunk) string {
			if c.Typ != wHBACK || len(c.Params) != 1 || c.Params[0].Typ != 1 || !eqBytes(c.Params[0].Val, bytesN(n, 3)) {
				return fmt.Sprintf("%s params=%s", c.Summary(), tlvTypes(c.Params))
			}
			return ""
		})
	}
	// ABORT / ERROR
	causeSets := []struct {
		name string
		mk   func() []errorCause
		want []wTLV
	}{
		{"none", func() []errorCause { return nil }, nil},
		{"pv4", func() []errorCause {
			return []errorCause{&errorCauseProtocolViolation{errorCauseHeader: errorCauseHeader{code: protocolViolation}, additionalInformation: bytesN(4, 1)}}
		}, []wTLV{{13, bytesN(4, 1)}}},
		{"pv3", func() []errorCause {
			return []errorCause{&errorCauseProtocolViolation{errorCauseHeader: errorCauseHeader{code: protocolViolation}, additionalInformation: bytesN(3, 1)}}
		}, []wTLV{{13, bytesN(3, 1)}}},
		{"user5", func() []errorCause {
			return []errorCause{&errorCauseUserInitiatedAbort{upperLayerAbortReason: bytesN(5, 2)}}
		}, []wTLV{{12, bytesN(5, 2)}}},
		{"unrec8+pv0", func() []errorCause {
			return []errorCause{&errorCauseUnrecognizedChunkType{unrecognizedChunk: bytesN(8, 5)}, &errorCauseProtocolViolation{errorCauseHeader: errorCauseHeader{code: protocolViolation}}}
		}, []wTLV{{6, bytesN(8, 5)}, {13, []byte{}}}},
		{"unknown4", func() []errorCause { return []errorCause{&errorCauseHeader{code: 99, raw: bytesN(4, 6)}} }, []wTLV{{99, bytesN(4, 6)}}},
		// a cause whose length is not a multiple of four followed by another cause
		{"pv3+user5", func() []errorCause {
			return []errorCause{&errorCauseProtocolViolation{errorCauseHeader: errorCauseHeader{code: protocolViolation}, additionalInformation: bytesN(3, 1)}, &errorCauseUserInitiatedAbort{upperLayerAbortReason: bytesN(5, 2)}}
		}, []wTLV{{13, bytesN(3, 1)}, {12, bytesN(5, 2)}}},
	}
	for _, cs := range causeSets {
		cs := cs
		for _, isErr := range []bool{false, true} {
			isErr := isErr
			name := "ABORT/"
			if isErr {
				name = "ERROR/"
			}
			add(name+cs.name, cs.name == "pv4" || cs.name == "user5", func() chunk {
				if isErr {
					return &chunkError{errorCauses: cs.mk()}
				}
				return &chunkAbort{errorCauses: cs.mk()}
			}, func(c *wChunk) string {
				wantT := uint8(wABORT)
				if isErr {
					wantT = wERROR
				}
				if c.Typ != wantT || len(c.Causes) != len(cs.want) {
					return fmt.Sprintf("%s causes=%s", c.Summary(), tlvTypes(c.Causes))
				}
				for i := range cs.want {
					if c.Causes[i].Typ != cs.want[i].Typ || !eqBytes(c.Causes[i].Val, cs.want[i].Val) {
						return fmt.Sprintf("cause %d: %d/%x", i, c.Causes[i].Typ, c.Causes[i].Val)
					}
				}
				return ""
			})
		}
	}
	// SHUTDOWN family, COOKIE
	for _, cum := range []uint32{0, 0xffffffff} {
		cum := cum
		add(fmt.Sprintf("SHUTDOWN/%d", cum), cum == 0, func() chunk { return &chunkShutdown{cumulativeTSNAck: cum} }, func(c *wChunk) string {
			if c.Typ != wSHUTDOWN || c.CumAck != cum {
				return c.Summary()
			}
			return ""
		})
	}
	add("SHUTDOWN-ACK", true, func() chunk { return &chunkShutdownAck{} }, func(c *wChunk) string {
		if c.Typ != wSHUTDOWNACK {
			return c.Summary()
		}
		return ""
	})
	add("SHUTDOWN-COMPLETE", true, func() chunk { return &chunkShutdownComplete{} }, func(c *wChunk) string {
		if c.Typ != wSHUTCOMPL {
			return c.Summary()
		}
		return ""
	})
	add("COOKIE-ACK", true, func() chunk { return &chunkCookieAck{} }, func(c *wChunk) string {
		if c.Typ != wCOOKIEACK {
			return c.Summary()
		}
		return ""
	})
	for _, n := range []int{1, 4, 5, 32} {
		n := n
		add(fmt.Sprintf("COOKIE-ECHO/%d", n), n == 5, func() chunk { return &chunkCookieEcho{cookie: bytesN(n, 8)} }, func(c *wChunk) string {
			if c.Typ != wCOOKIEECHO || !eqBytes(c.Cookie, bytesN(n, 8)) {
				return c.Summary()
			}
			return ""
		})
	}
	// RECONFIG
	mkOut := func(n int) *paramOutgoingResetRequest {
		return &paramOutgoingResetRequest{reconfigRequestSequenceNumber: 0xffffffff, reconfigResponseSequenceNumber: 2, senderLastTSN: 0xfffffffe, streamIdentifiers: []uint16{1, 65535, 7}[:n]}
	}
	mkResp := func() *paramReconfigResponse {
		return &paramReconfigResponse{reconfigResponseSequenceNumber: 0xffffffff, result: reconfigResultInProgress}
	}
	outVal := func(n int) []byte {
		v := cat(u32(0xffffffff), u32(2), u32(0xfffffffe))
		for _, s := range []uint16{1, 65535, 7}[:n] {
			v = append(v, u16(s)...)
		}
		return v
	}
	respVal := cat(u32(0xffffffff), u32(6))
	for n := 0; n <= 3; n++ {
		n := n
		add(fmt.Sprintf("RECONFIG/out%d", n), n == 1, func() chunk { return &chunkReconfig{paramA: mkOut(n)} }, func(c *wChunk) string {
			if c.Typ != wRECONFIG || len(c.Params) != 1 || c.Params[0].Typ != 13 || !eqBytes(c.Params[0].Val, outVal(n)) {
				return c.Summary() + " " + tlvTypes(c.Params)
			}
			return ""
		})
		add(fmt.Sprintf("RECONFIG/out%d+resp", n), n == 1, func() chunk { return &chunkReconfig{paramA: mkOut(n), paramB: mkResp()} }, func(c *wChunk) string {
			if c.Typ != wRECONFIG || len(c.Params) != 2 || c.Params[0].Typ != 13 || !eqBytes(c.Params[0].Val, outVal(n)) || c.Params[1].Typ != 16 || !eqBytes(c.Params[1].Val, respVal) {
				return c.Summary() + " " + tlvTypes(c.Params)
			}
			return ""
		})
	}
	add("RECONFIG/resp", true, func() chunk { return &chunkReconfig{paramA: mkResp()} }, func(c *wChunk) string {
		if c.Typ != wRECONFIG || len(c.Params) != 1 || c.Params[0].Typ != 16 || !eqBytes(c.Params[0].Val, respVal) {
			return c.Summary()
		}
		return ""
	})
	// FORWARD-TSN / I-FORWARD-TSN
	for n := 0; n <= 3; n++ {
		n := n
		fs := []chunkForwardTSNStream{{1, 0}, {65535, 65535}, {3, 9}}[:n]
		add(fmt.Sprintf("FWDTSN/%d", n), n == 2, func() chunk {
			return &chunkForwardTSN{newCumulativeTSN: 0xffffffff, streams: append([]chunkForwardTSNStream(nil), fs...)}
		}, func(c *wChunk) string {
			if c.Typ != wFWDTSN || c.NewCum != 0xffffffff || len(c.Streams) != n {
				return c.Summary()
			}
			for i := range fs {
				if c.Streams[i].SID != fs[i].identifier || c.Streams[i].SSN != fs[i].sequence {
					return c.Summary()
				}
			}
			return ""
		})
		is := []chunkIForwardTSNStream{{1, false, 0}, {1, true, 0xffffffff}, {65535, false, 9}}[:n]
		add(fmt.Sprintf("IFWDTSN/%d", n), n == 2, func() chunk {
			return &chunkIForwardTSN{newCumulativeTSN: 1, streams: append([]chunkIForwardTSNStream(nil), is...)}
		}, func(c *wChunk) string {
			if c.Typ != wIFWDTSN || c.NewCum != 1 || len(c.Streams) != n {
				return c.Summary()
			}
			for i := range is {
				if c.Streams[i].SID != is[i].identifier || c.Streams[i].Unordered != is[i].unordered || c.Streams[i].MID != is[i].messageIdentifier {
					return c.Summary()
				}
			}
			return ""
		})
	}
	return out
}

func marshalViaInterface(cs ...chunk) ([]byte, error) {
	p := &packet{sourcePort: 5000, destinationPort: 5000, verificationTag: 0x01020304, chunks: cs}
	return p.marshal(true)
}

// c12Oversize: chunks whose variable part does not fit the 16-bit length fields (an abort
// reason of 64 KiB supplied by the application, a SACK / FORWARD-TSN with more entries than a
// chunk can hold).  The encoder may refuse them; it must not panic and must not emit a packet
// that decodes to something else.
func c12Oversize(j *Job) {
	if !j.mine(0) {
		return
	}
	try := func(name string, mk func() chunk, check func(d *wPacket) string) {
		j.Stats.Cases++
		j.Stats.Execs++
		var raw []byte
		var err error
		func() {
			defer func() {
				if r := recover(); r != nil {
					j.failSeq("codec.panic", "oversize/"+name, fmt.Sprintf("marshal panicked: %v", r), nil)
					err = fmt.Errorf("panic")
				}
			}()
			raw, err = marshalViaInterface(mk())
		}()
		if err != nil {
			return // refused: fine
		}
		dec, derr := wDecode(raw)
		if derr != nil {
			j.failSeq("codec.oversize", "oversize/"+name, fmt.Sprintf("marshal returned a %d-byte packet without error that does not decode: %v", len(raw), derr), nil)
			return
		}
		if msg := check(dec); msg != "" {
			j.failSeq("codec.oversize", "oversize/"+name, fmt.Sprintf("marshal returned a %d-byte packet without error that decodes to something else: %s", len(raw), msg), nil)
		}
	}
	for _, n := range []int{65000, 65526, 65527, 65528, 65531, 65532, 65533, 65535, 65536, 65546, 70000} {
		n := n
		reason := bytesN(n, 7)
		try(fmt.Sprintf("abort-reason%d", n), func() chunk {
			return &chunkAbort{errorCauses: []errorCause{&errorCauseUserInitiatedAbort{upperLayerAbortReason: reason}}}
		}, func(d *wPacket) string {
			if len(d.Chunks) != 1 || d.Chunks[0].Typ != wABORT || len(d.Chunks[0].Causes) != 1 {
				return fmt.Sprintf("%d chunks", len(d.Chunks))
			}
			if got := d.Chunks[0].Causes[0].Val; !bytes.Equal(got, reason) {
				return fmt.Sprintf("abort reason of %d bytes came out as %d bytes", n, len(got))
			}
			return ""
		})
	}
	for _, n := range []int{16379, 16380, 16381, 20000} {
		n := n
		try(fmt.Sprintf("sack-gaps%d", n), func() chunk {
			c := &chunkSelectiveAck{cumulativeTSNAck: 5, advertisedReceiverWindowCredit: 1000}
			for i := 0; i < n; i++ {
				c.gapAckBlocks = append(c.gapAckBlocks, gapAckBlock{start: uint16(2 + 2*i), end: uint16(2 + 2*i)})
			}
			return c
		}, func(d *wPacket) string {
			if len(d.Chunks) != 1 || d.Chunks[0].Typ != wSACK || len(d.Chunks[0].Gaps) != n {
				return fmt.Sprintf("%d chunks, %d gap blocks instead of %d", len(d.Chunks), len(d.Chunks[0].Gaps), n)
			}
			return ""
		})
	}
}

// c12Position: the decoder's verdict on the bytes of one chunk - accepted or refused, and what it
// decodes to - is the same whether the chunk is alone in the packet, first or last.  Raw chunks:
// every sample as emitted, every sample that has padding with non-zero padding bytes, and
// bare headers whose length field is smaller than the header itself.
func c12Position(j *Job, standalone [][]byte, names []string) {
	hdr := func() []byte {
		raw, _ := (&packet{sourcePort: 5000, destinationPort: 5000, verificationTag: 7}).marshal(false)
		return raw[:packetHeaderSize]
	}
	type verdict struct {
		ok  bool
		enc string
		n   int
	}
	decode := func(chunks []byte, at int) verdict {
		pk := &packet{}
		raw := append(hdr(), chunks...)
		binary.LittleEndian.PutUint32(raw[8:], generatePacketChecksum(raw))
		if err := pk.unmarshal(true, raw); err != nil {
			return verdict{}
		}
		v := verdict{ok: true, n: len(pk.chunks)}
		k := at
		if at < 0 {
			k = len(pk.chunks) - 1
		}
		if k < len(pk.chunks) {
			b, _ := pk.chunks[k].marshal()
			v.enc = fmt.Sprintf("%x", b)
		}
		return v
	}
	short := []byte{byte(ctCookieAck), 0, 0, 4}
	var long []byte
	for len(long) < 65532 {
		long = append(long, byte(ctShutdownAck), 0, 0, 4)
	}
	try := func(name string, r []byte, fillers ...[]byte) {
		j.Stats.Steps++
		alone := decode(r, 0)
		for fi, f := range fillers {
			first := decode(append(append([]byte{}, r...), f...), 0)
			last := decode(append(append([]byte{}, f...), r...), -1)
			nf := len(f) / 4
			switch {
			case first.ok != alone.ok || last.ok != alone.ok:
				j.failSeq("codec.position", "position/"+name, fmt.Sprintf("chunk %x: alone accepted=%v, followed by %d other chunk(s) accepted=%v, preceded by them accepted=%v", r[:min(len(r), 24)], alone.ok, nf, first.ok, last.ok), nil)
				return
			case alone.ok && (first.enc != alone.enc || last.enc != alone.enc || first.n != alone.n+nf || last.n != alone.n+nf):
				j.failSeq("codec.position", "position/"+name, fmt.Sprintf("chunk %x decodes differently by position (filler %d): alone %s (%d chunks), first %s (%d), last %s (%d)", r[:min(len(r), 24)], fi, alone.enc, alone.n, first.enc, first.n, last.enc, last.n), nil)
				return
			}
		}
	}
	for i, r := range standalone {
		if r == nil || !j.mine(i) {
			continue
		}
		if t := chunkType(r[0]); t == ctInit || t == ctInitAck || t == ctShutdownComplete {
			continue // may not be bundled at all: a rule about packets, not about the chunk's bytes
		}
		try(names[i]+"/as-emitted", r, short)
		l := int(r[2])<<8 | int(r[3])
		if l < len(r) && l >= 4 {
			q := append([]byte{}, r...)
			for k := l; k < len(q); k++ {
				q[k] = 0xde
			}
			try(names[i]+"/padding-nonzero", q, short)
		}
		for l := 0; l < 4; l++ {
			try(fmt.Sprintf("%s/length%d", names[i], l), []byte{r[0], r[1], 0, byte(l)}, short, long, append(append([]byte{}, long...), short...))
		}
	}
}

// c12AcceptedReencode: packets the library has not built itself but accepts - an empty
// HEARTBEAT / HEARTBEAT-ACK, ABORT and SHUTDOWN-COMPLETE with the T bit, an INIT with a parameter
// the library has no type for - can be encoded again, the result is accepted again, and encoding
// that once more reproduces the same bytes.
func c12AcceptedReencode(j *Job) {
	if !j.mine(2) {
		return
	}
	hdr := func(tag uint32) []byte {
		raw, _ := (&packet{sourcePort: 5000, destinationPort: 5000, verificationTag: tag}).marshal(false)
		return raw[:packetHeaderSize]
	}
	cases := []struct {
		name   string
		tag    uint32
		chunks []byte
	}{
		{"heartbeat-empty", 7, []byte{byte(ctHeartbeat), 0, 0, 4}},
		{"heartbeat-ack-empty", 7, []byte{byte(ctHeartbeatAck), 0, 0, 4}},
		{"sack+heartbeat-ack-empty", 7, append([]byte{byte(ctSack), 0, 0, 16, 0, 0, 0, 1, 0, 0, 16, 0, 0, 0, 0, 0}, byte(ctHeartbeatAck), 0, 0, 4)},
		{"abort-T", 7, []byte{byte(ctAbort), 1, 0, 8, 0, 12, 0, 4}},
		{"shutdown-complete-T", 7, []byte{byte(ctShutdownComplete), 1, 0, 4}},
		{"init-unknown-param", 0, append([]byte{byte(ctInit), 0, 0, 28, 0, 0, 0, 9, 0, 16, 0, 0, 0, 10, 0, 10, 0, 0, 0, 5}, 0xc0, 0x06, 0, 8, 0, 0, 0, 1)},
	}
	for _, c := range cases {
		j.Stats.Steps++
		raw := append(hdr(c.tag), c.chunks...)
		binary.LittleEndian.PutUint32(raw[8:], generatePacketChecksum(raw))
		pk := &packet{}
		if err := pk.unmarshal(true, raw); err != nil {
			continue // not accepted: nothing is promised
		}
		raw2, err := pk.marshal(true)
		if err != nil {
			j.failSeq("codec.reencode-accepted", "accepted/"+c.name, fmt.Sprintf("the packet %x is accepted (%d chunks) but cannot be encoded again: %v", raw, len(pk.chunks), err), nil)
			continue
		}
		pk2 := &packet{}
		if err := pk2.unmarshal(true, raw2); err != nil {
			j.failSeq("codec.reencode-accepted", "accepted/"+c.name, fmt.Sprintf("the packet %x is accepted, its re-encoding %x is refused: %v", raw, raw2, err), nil)
			continue
		}
		raw3, err := pk2.marshal(true)
		if err != nil || !bytes.Equal(raw2, raw3) || len(pk2.chunks) != len(pk.chunks) {
			j.failSeq("codec.reencode-accepted", "accepted/"+c.name, fmt.Sprintf("re-encoding is not stable: %x -> %x -> %x (err=%v)", raw, raw2, raw3, err), nil)
		}
	}
}

func propC12(j *Job) {
	c12Oversize(j)
	c12AcceptedReencode(j)
	samples := codecSamples()
	standalone := make([][]byte, len(samples)) // chunk bytes incl. padding when sent alone
	// (i) single chunks
	for i, s := range samples {
		raw, err := marshalViaInterface(s.mk())
		j.Stats.Steps++
		j.Stats.NewStates++
		if err != nil {
			j.failSeq("codec.marshal", "single/"+s.name, fmt.Sprintf("marshal through the chunk interface failed: %v", err), nil)
			continue
		}
		standalone[i] = raw[12:]
		d, derr := wDecode(raw)
		if derr != nil {
			j.failSeq("codec.malformed", "single/"+s.name, fmt.Sprintf("independent decoder rejects emitted bytes: %v (%x)", derr, raw), nil)
			continue
		}
		if !d.CksumOK {
			j.failSeq("codec.cksum", "single/"+s.name, "wrong CRC32c", nil)
		}
		if len(d.Chunks) != 1 {
			j.failSeq("codec.fidelity", "single/"+s.name, fmt.Sprintf("decodes to %d chunks", len(d.Chunks)), nil)
			continue
		}
		if msg := s.expect(&d.Chunks[0]); msg != "" {
			j.failSeq("codec.fidelity", "single/"+s.name, fmt.Sprintf("built %s but the wire says: %s (%x)", s.name, msg, raw), nil)
			continue
		}
		// pion decode + re-encode
		pk := &packet{}
		if err := pk.unmarshal(true, raw); err != nil {
			j.failSeq("codec.selfdecode", "single/"+s.name, fmt.Sprintf("own decoder rejects own bytes: %v", err), nil)
			continue
		}
		if len(pk.chunks) != 1 || reflect.TypeOf(pk.chunks[0]) != reflect.TypeOf(s.mk()) {
			j.failSeq("codec.selfdecode", "single/"+s.name, fmt.Sprintf("own decoder yields %d chunks of type %T", len(pk.chunks), pk.chunks[0]), nil)
			continue
		}
		raw2, err := pk.marshal(true)
		if err != nil || !bytes.Equal(raw, raw2) {
			j.failSeq("codec.reencode", "single/"+s.name, fmt.Sprintf("decode+re-encode not stable: err=%v\n %x\n %x", err, raw, raw2), nil)
		}
	}
	names := make([]string, len(samples))
	for i := range samples {
		names[i] = samples[i].name
	}
	c12Position(j, standalone, names)
	// (ii) bundles: all ordered pairs (sharded by first element), triples over the core set when thorough
	checkBundle := func(idx []int) {
		var cs []chunk
		name := ""
		for _, i := range idx {
			cs = append(cs, samples[i].mk())
			name += samples[i].name + ","
			if standalone[i] == nil {
				return
			}
		}
		raw, err := marshalViaInterface(cs...)
		j.Stats.Steps++
		j.Stats.NewStates++
		if err != nil {
			j.failSeq("codec.marshal", "bundle", fmt.Sprintf("[%s]: %v", name, err), nil)
			return
		}
		var want []byte
		for _, i := range idx {
			want = append(want, standalone[i]...)
		}
		if !bytes.Equal(raw[12:], want) {
			j.failSeq("codec.bundle.bytes", "bundle", fmt.Sprintf("[%s]: bundled bytes differ from the stand-alone encodings", name), nil)
			return
		}
		d, derr := wDecode(raw)
		if derr != nil || len(d.Chunks) != len(idx) {
			j.failSeq("codec.bundle.decode", "bundle", fmt.Sprintf("[%s]: independent decoder: %v, %d chunks", name, derr, len(d.Chunks)), nil)
			return
		}
		for k, i := range idx {
			if msg := samples[i].expect(&d.Chunks[k]); msg != "" {
				j.failSeq("codec.bundle.fidelity", "bundle", fmt.Sprintf("[%s]: chunk %d decodes differently in a bundle: %s", name, k, msg), nil)
				return
			}
		}
		pk := &packet{}
		if err := pk.unmarshal(true, raw); err != nil {
			j.failSeq("codec.bundle.selfdecode", "bundle", fmt.Sprintf("[%s]: own decoder rejects the bundle: %v", name, err), nil)
			return
		}
		if len(pk.chunks) != len(idx) {
			j.failSeq("codec.bundle.selfdecode", "bundle", fmt.Sprintf("[%s]: own decoder yields %d chunks", name, len(pk.chunks)), nil)
			return
		}
		// each chunk must decode exactly as it does alone: compare with the stand-alone decode, field by field via re-encode
		for k, i := range idx {
			alone := &packet{}
			rawAlone, _ := marshalViaInterface(samples[i].mk())
			if err := alone.unmarshal(true, rawAlone); err != nil || len(alone.chunks) != 1 {
				continue
			}
			a, _ := alone.chunks[0].marshal()
			b, errb := pk.chunks[k].marshal()
			if errb != nil || !bytes.Equal(a, b) {
				j.failSeq("codec.bundle.meaning", "bundle", fmt.Sprintf("[%s]: chunk %d (%s) decoded from the bundle re-encodes to %x, alone to %x (err=%v)", name, k, samples[i].name, b, a, errb), nil)
				return
			}
		}
		raw2, err := pk.marshal(true)
		if err != nil || !bytes.Equal(raw, raw2) {
			j.failSeq("codec.bundle.reencode", "bundle", fmt.Sprintf("[%s]: decode+re-encode of the bundle not stable (err=%v)", name, err), nil)
		}
	}
	for a := range samples {
		if !j.mine(a) {
			continue
		}
		for b := range samples {
			checkBundle([]int{a, b})
		}
		if j.capped() {
			return
		}
	}
	if j.Thorough() {
		var core []int
		for i, s := range samples {
			if s.core {
				core = append(core, i)
			}
		}
		for ai, a := range core {
			if !j.mine(ai) {
				continue
			}
			for _, b := range core {
				for _, c := range core {
					checkBundle([]int{a, b, c})
				}
			}
		}
		j.extra("core_samples", len(core))
	}
	j.Stats.Execs += int(j.Stats.NewStates)
	j.Stats.Cases = len(samples)
	j.sample(map[string]any{"engine": "seq", "what": "every sample chunk alone and all ordered pairs through packet.marshal (chunk interface), independent decoder + own decoder", "samples": len(samples)})
	c12EndToEnd(j)
}
