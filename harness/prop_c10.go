package sctp

import (
	"fmt"
	"os"
	"sort"
	"strings"
	"time"
)

func init() { register("C10", propC10) }

type c10Cfg struct {
	mtu     uint32
	minCwnd uint32
	arwnd   uint32
	il      bool
	// cbWrite: an OnBufferedAmountLow callback writes one more message (at most 3 times): new
	// data enters the association in the middle of SACK processing
	cbWrite bool
}

// c10 events
const (
	evW1 = iota
	evWP
	evW3
	evW12
	evSackAll
	evSackOne
	evSackGap
	evSackHalfZero
	evSackAllSmall
	evTimer
	evIdle
	evSackDupOld
	evWP8
	evSackAllPm1
	evW1x6
	evSackAllRw3
	nC10Events
)

var c10Names = []string{"w1", "wP", "w3P", "w12P", "sack-all", "sack+1", "sack-gap-last", "sack-half-rwnd0", "sack-all-rwndP", "timer", "idle250", "sack-old", "wP+8", "sack-all-rwndP-1", "w1x6", "sack-all-rwnd3"}

type c10Obs struct {
	cwnd, ssthresh, rwnd uint32
	inFR                 bool
	t3                   uint64
	maxMiss              uint32
	tlr                  bool
	exit                 uint32
}

var c10Debug = os.Getenv("VERIF_TRACE") != ""

func c10Observe(a *Association) c10Obs {
	o := c10Obs{cwnd: a.CWND(), ssthresh: a.ssthresh, rwnd: a.RWND(), inFR: a.inFastRecovery, t3: a.stats.getNumT3Timeouts(), tlr: a.tlrActive, exit: a.fastRecoverExitPoint}
	q := a.inflightQueue
	for i := 0; i < q.chunks.Len(); i++ {
		if c := q.chunks.At(i); !c.acked && c.missIndicator > o.maxMiss {
			o.maxMiss = c.missIndicator
		}
	}
	return o
}

// rackLog counts the chunks the time-based (RACK) loss detector declares lost: the library has no
// other observable trace of that decision once the retransmission has gone out, and it logs each
// one ("RACK: mark lost tsn=", "RACK timer: mark lost tsn=").
type rackLog struct {
	nopLogger
	marks int
}

func (l *rackLog) Tracef(f string, _ ...any) {
	if strings.Contains(f, "mark lost") {
		l.marks++
	}
}

func c10Scenario(cfg c10Cfg, seq []int) *Scenario {
	return &Scenario{
		Name:    "flow",
		Horizon: 300 * time.Second,
		Setup: func(m *Sim) {
			m.InvOn = true
			m.W.onQuiescent = m.invariantsAll
			m.W.delay = [2]time.Duration{5 * time.Millisecond, 5 * time.Millisecond}
		},
		Body: func(m *Sim) {
			ecfg := epCfg{NoInterleave: !cfg.il, MTU: cfg.mtu, RTOMax: 4000, InitTSN: 0xFFFFFFF8, MinCwnd: cfg.minCwnd}
			p := newScripted(m, ecfg, cfg.il, false)
			p.arwnd = cfg.arwnd
			if !p.connectClient() {
				m.Failf("e2.base", "handshake with the scripted peer failed")
				c03Teardown(m, p)
				return
			}
			a := p.a
			rl := &rackLog{}
			a.lock.Lock()
			a.log = rl
			a.lock.Unlock()
			s, _ := a.OpenStream(1, PayloadTypeWebRTCBinary)
			m.streamsSeen = append(m.streamsSeen, s)
			P := int(a.maxPayloadSize)
			mtu := a.MTU()
			if cfg.cbWrite {
				n := 0
				s.SetBufferedAmountLowThreshold(uint64(P))
				s.OnBufferedAmountLow(func() {
					if n < 3 {
						n++
						_, _ = s.WriteSCTP(payload(1, 900+n, 2*P), PayloadTypeWebRTCBinary)
					}
				})
			}
			floor := mtu
			if cfg.minCwnd > floor {
				floor = cfg.minCwnd
			}
			nmsg := 0
			// reference model of fast recovery, conservative: it is certainly over once the
			// cumulative ack covers every TSN that had been sent when it began (the RFC's exit
			// point is the highest outstanding TSN; an earlier exit point is also tolerated)
			modelFR, modelExit := false, uint32(0)
			gapRun := 0 // consecutive gap-only SACKs (same cumulative ack) the harness has injected
			for step, ev := range seq {
				before := c10Observe(a)
				marks0 := rl.marks
				gapSack := false
				name := c10Names[ev]
				switch ev {
				case evW1, evWP, evW3, evW12, evWP8:
					size := map[int]int{evW1: 1, evWP: P, evW3: 3 * P, evW12: 12 * P, evWP8: P + 8}[ev]
					if mm := int(a.MaxMessageSize()); size > mm {
						size = mm
					}
					if _, err := s.WriteSCTP(payload(1, nmsg, size), PayloadTypeWebRTCBinary); err != nil {
						m.Failf("flow.write", "write failed: %v", err)
					}
					nmsg++
					p.settle(0)
				case evSackAll:
					p.arwndNow = cfg.arwnd
					p.ackAll()
				case evSackAllSmall:
					p.arwndNow = uint32(P)
					p.ackAll()
				case evSackAllPm1:
					p.arwndNow = uint32(P - 1)
					p.ackAll()
				case evSackAllRw3:
					p.arwndNow = 3
					p.ackAll()
				case evW1x6:
					for k := 0; k < 6; k++ {
						if _, err := s.WriteSCTP(payload(1, nmsg, 1), PayloadTypeWebRTCBinary); err != nil {
							m.Failf("flow.write", "write failed: %v", err)
						}
						nmsg++
					}
					p.settle(0)
				case evSackOne, evSackGap, evSackHalfZero, evSackDupOld:
					// craft relative to what the endpoint has outstanding
					var outstanding []uint32
					for t := range p.recvd {
						if sna32lt(p.sackCum(a), t) {
							outstanding = append(outstanding, t)
						}
					}
					sort.Slice(outstanding, func(i, j int) bool { return sna32lt(outstanding[i], outstanding[j]) })
					cum := p.sackCum(a)
					var gaps []wGap
					rw := cfg.arwnd
					switch ev {
					case evSackOne:
						if len(outstanding) > 0 {
							cum = outstanding[0]
						}
					case evSackGap:
						if len(outstanding) > 1 {
							last := outstanding[len(outstanding)-1]
							gaps = []wGap{{uint16(last - cum), uint16(last - cum)}}
							gapSack = true
						}
					case evSackHalfZero:
						if len(outstanding) > 0 {
							cum = outstanding[len(outstanding)/2]
						}
						rw = 0
					case evSackDupOld:
						cum = cum - 1
					}
					p.inject(p.pkt(chunkBytes(wSACK, 0, wSackVal(cum, rw, gaps, nil))))
				case evTimer:
					// let virtual time run to the next timer of the endpoint (at most 5 s)
					ev0 := len(m.W.events)
					t30 := a.stats.getNumT3Timeouts()
					m.WaitUntil("next-timer", 5*time.Second, func() bool {
						return len(m.W.events) > ev0 || a.stats.getNumT3Timeouts() != t30
					})
					p.settle(0)
				case evIdle:
					m.Sleep(250 * time.Millisecond)
					p.settle(0)
				}
				after := c10Observe(a)
				where := fmt.Sprintf("step %d (%s) of %v", step, name, seqNames(seq))
				if c10Debug {
					m.Logf("c10 "+name, "cwnd=%d ssthresh=%d inFR=%v exit=%d cum=%d next=%d maxMiss=%d modelFR=%v", after.cwnd, after.ssthresh, after.inFR, a.fastRecoverExitPoint, a.cumulativeTSNAckPoint, a.myNextTSN, after.maxMiss, modelFR)
				}
				if after.cwnd < mtu {
					m.Failf("cwnd.floor", "%s: cwnd %d fell below one MTU (%d)", where, after.cwnd, mtu)
				}
				if a.CWND() != after.cwnd {
					m.Failf("cwnd.api", "CWND() disagrees with the internal value")
				}
				if after.t3 > before.t3 {
					// T3 expiry: slow start from one MTU
					wantSS := before.cwnd / 2
					if wantSS < 4*mtu {
						wantSS = 4 * mtu
					}
					if after.cwnd != floor {
						m.Failf("cwnd.t3", "%s: T3-rtx expired but cwnd is %d (was %d), want %d", where, after.cwnd, before.cwnd, floor)
					}
					if after.t3 == before.t3+1 && after.ssthresh != wantSS {
						m.Failf("cwnd.t3", "%s: T3-rtx expired: ssthresh %d, want max(cwnd/2, 4 MTU) = %d", where, after.ssthresh, wantSS)
					}
				} else if before.maxMiss < 3 && after.maxMiss >= 3 && !before.inFR && modelFR {
					// the implementation left fast recovery before the conservative point: tolerated
					modelFR = false
				} else if before.maxMiss < 3 && after.maxMiss >= 3 && before.inFR && !modelFR {
					m.Failf("cwnd.fastrtx", "%s: loss signalled by three gap reports but the window was not cut (%d -> %d): fast recovery from an earlier episode never ended although everything sent before it has been acknowledged", where, before.cwnd, after.cwnd)
				} else if before.maxMiss < 3 && after.maxMiss >= 3 && !before.inFR {
					modelFR, modelExit = true, a.myNextTSN-1
					// third miss indication: a loss signal; the window must be cut by the RFC 4960 7.2.3 rule
					want := before.cwnd / 2
					if want < 4*mtu {
						want = 4 * mtu
					}
					if want < cfg.minCwnd {
						want = cfg.minCwnd
					}
					if before.cwnd < want && after.cwnd > max(before.cwnd, cfg.minCwnd) {
						// "the congestion window is cut on every loss signal": the 4 MTU floor of the
						// slow-start threshold is no reason to open a window that was smaller
						m.Failf("cwnd.loss-raise", "%s: loss signalled by three gap reports and the window went UP, %d -> %d (ssthresh %d -> %d): the floor of 4 MTU meant for the slow-start threshold was installed as the window", where, before.cwnd, after.cwnd, before.ssthresh, after.ssthresh)
					}
					if before.cwnd < want {
						want = max(before.cwnd, cfg.minCwnd)
					}
					rackToo := rl.marks > marks0 && after.cwnd == min(before.cwnd, want) // the time-based detector spoke first in this very event
					if after.cwnd != want && !rackToo {
						m.Failf("cwnd.fastrtx", "%s: loss signalled by three gap reports but cwnd went %d -> %d, want %d", where, before.cwnd, after.cwnd, want)
					}
				} else if before.inFR && after.inFR && before.exit != after.exit {
					// one recovery episode ended and the next began within this event: the entry rule
					// (RFC 4960 7.2.3) applies to the new one, it may sit on the 4 MTU floor
					if lim := max(before.cwnd, 4*mtu, cfg.minCwnd); after.cwnd > lim {
						m.Failf("cwnd.fr-growth", "%s: a new recovery episode began with cwnd %d -> %d (more than the window before and the 4 MTU floor)", where, before.cwnd, after.cwnd)
					}
					modelFR, modelExit = true, a.myNextTSN-1
				} else if before.inFR && after.inFR && after.cwnd > before.cwnd {
					m.Failf("cwnd.fr-growth", "%s: cwnd grew %d -> %d while in fast recovery", where, before.cwnd, after.cwnd)
				}
				if rl.marks > marks0 && after.t3 == before.t3 && !before.inFR && before.cwnd > floor &&
					after.cwnd >= before.cwnd && after.ssthresh == before.ssthresh && !after.inFR {
					// a chunk was declared lost by the time-based detector and is retransmitted: a loss
					// signal like any other, and nothing of the congestion state reacted to it
					m.Failf("cwnd.rack-loss", "%s: %d chunk(s) declared lost by the RACK detector and retransmitted, yet no congestion response: cwnd %d -> %d, ssthresh %d unchanged, not in fast recovery, no T3 expiry", where, rl.marks-marks0, before.cwnd, after.cwnd, after.ssthresh)
				}
				if rl.marks > marks0 && after.t3 == before.t3 && !before.inFR && after.inFR && after.cwnd > max(after.ssthresh, cfg.minCwnd) {
					// the response itself: slow-start threshold halved, window brought down to it
					m.Failf("cwnd.rack-loss", "%s: %d chunk(s) declared lost by the RACK detector; the slow-start threshold went %d -> %d but the window was left at %d (before: %d): a loss signal that does not cut the window", where, rl.marks-marks0, before.ssthresh, after.ssthresh, after.cwnd, before.cwnd)
				}
				if rl.marks > marks0 && after.t3 == before.t3 && before.inFR && !modelFR && before.cwnd > floor &&
					after.cwnd >= before.cwnd && after.ssthresh == before.ssthresh && before.exit == after.exit {
					m.Failf("cwnd.rack-loss", "%s: %d chunk(s) declared lost by the RACK detector, no congestion response (cwnd %d -> %d, ssthresh %d unchanged): the endpoint still believes it is in the recovery of an earlier episode (exit point %d) although everything sent before that episode began has been acknowledged (cumulative ack %d)", where, rl.marks-marks0, before.cwnd, after.cwnd, after.ssthresh, after.exit, a.cumulativeTSNAckPoint)
				}
				if rl.marks > marks0 && !before.inFR && after.inFR && !modelFR {
					// recovery episode opened by the time-based detector
					modelFR, modelExit = true, a.myNextTSN-1
				}
				switch {
				case gapSack:
					gapRun++
				case ev == evW1 || ev == evWP || ev == evW3 || ev == evW12 || ev == evWP8 || ev == evW1x6:
				default:
					gapRun = 0
				}
				if gapSack && gapRun == 3 && !modelFR && before.inFR && after.inFR && after.t3 == before.t3 {
					// the harness itself has reported the same TSNs missing three times
					m.Failf("cwnd.fastrtx", "%s: third consecutive gap report for the same missing TSNs, yet no loss response (cwnd %d -> %d): the endpoint still believes it is in the fast recovery of an earlier episode although everything sent before that episode has been acknowledged", where, before.cwnd, after.cwnd)
				}
				if after.t3 > before.t3 {
					modelFR = false
					gapRun = 0
				}
				if modelFR && sna32GTE(a.cumulativeTSNAckPoint, modelExit) {
					modelFR = false
				}
			}
			m.Observe("%s", snapAssoc(a))
			c03Teardown(m, p)
		},
		Final: func(m *Sim, x *Exec) {
			generalVerdicts(m, x, false)
			runWireMonitors(m, x, monOpts{Flow: true})
		},
	}
}

func seqNames(seq []int) []string {
	out := make([]string, len(seq))
	for i, e := range seq {
		out[i] = c10Names[e]
	}
	return out
}

func propC10(j *Job) {
	// a T3-rtx expiry is a loss signal: it is acted upon (window collapsed, retransmission) also
	// when a SACK without cumulative progress is handled in the same instant (scenario of C19)
	for _, mode := range stdModes()[:2] {
		j.Explore(fmt.Sprintf("VE/%s", mode.Name), validExpiryScenario(withBase(mode.A, 1191, 0xFFFFFFFC, 4000), withBase(mode.B, 1191, 3, 4000)), Budget{D: map[bool]int{false: 1, true: 2}[j.Thorough()]}, nil)
	}
	depth := 4
	if j.Thorough() {
		depth = 5
	}
	var cfgs []c10Cfg
	for _, mtu := range []uint32{100, 1191} {
		for _, mc := range []uint32{0, 3} {
			for _, rw := range []uint32{1500, 1 << 20} {
				for _, il := range []bool{false, true} {
					if !j.Thorough() && ((mtu == 1191) != (mc == 3) || il != (rw == 1500)) {
						continue
					}
					cfgs = append(cfgs, c10Cfg{mtu: mtu, minCwnd: mc * mtu, arwnd: rw, il: il})
				}
			}
		}
	}
	if j.Thorough() {
		cfgs = append(cfgs, c10Cfg{mtu: 6000, arwnd: 1 << 20}, c10Cfg{mtu: 4381, arwnd: 1 << 20, il: true}, c10Cfg{mtu: 1191, arwnd: 1500, cbWrite: true}, c10Cfg{mtu: 100, arwnd: 1500, cbWrite: true, il: true})
	}
	bases := [][]int{{}, {evW1, evSackAll}, {evW1, evSackAll, evW12, evTimer}, {evW12, evSackGap, evSackGap},
		// a timeout, then gap reports without cumulative progress (fast recovery raises the
		// collapsed window), then the backed-off second expiry
		{evW12, evTimer, evSackGap, evSackGap}}
	// slow start to a large window, a first loss episode, its repair, and a second episode
	grown := []int{}
	for i := 0; i < 6; i++ {
		grown = append(grown, evW12, evSackAll)
	}
	grown = append(grown, evW12, evSackGap, evSackGap, evSackGap, evW1, evSackAll, evW12, evSackGap, evSackGap)
	bases = append(bases, grown)
	// a loss declared by the time-based detector and repaired (two writes at different times, the
	// second acknowledged alone, then everything): what follows starts from a finished episode
	bases = append(bases, []int{evW1, evWP, evSackGap, evSackAll})
	for ci, cfg := range cfgs {
		for bi, base := range bases {
			d := depth - 1
			if bi == 0 && (ci == 0 || j.Thorough()) {
				d = depth
			}
			if bi == 5 {
				d = depth - 2
			}
			seq := make([]int, d)
			var rec func(i int)
			rec = func(i int) {
				if j.capped() {
					return
				}
				if i == d {
					s := append(append([]int(nil), base...), seq...)
					hasW := false
					for _, e := range s {
						if e <= evW12 || e == evWP8 || e == evW1x6 {
							hasW = true
						}
					}
					if !hasW {
						return
					}
					j.Explore(fmt.Sprintf("F/mtu%d/min%d/rw%d/il%v/cb%v/%v", cfg.mtu, cfg.minCwnd, cfg.arwnd, cfg.il, cfg.cbWrite, s), c10Scenario(cfg, s), Budget{}, nil)
					return
				}
				for e := 0; e < nC10Events; e++ {
					seq[i] = e
					rec(i + 1)
				}
			}
			rec(0)
		}
	}
	if !j.Thorough() {
		// configurations outside the main grid, depth 3 from the empty history
		for _, cfg := range []c10Cfg{{mtu: 6000, arwnd: 1 << 20}, {mtu: 1191, arwnd: 3000, cbWrite: true}, {mtu: 100, arwnd: 1500, cbWrite: true, il: true}} {
			seq := make([]int, 3)
			var rec func(i int)
			rec = func(i int) {
				if j.capped() {
					return
				}
				if i == len(seq) {
					if seq[0] > evW12 && seq[0] != evWP8 && seq[0] != evW1x6 {
						return
					}
					sq := append([]int(nil), seq...)
					j.Explore(fmt.Sprintf("F/mtu%d/min%d/rw%d/il%v/cb%v/%v", cfg.mtu, cfg.minCwnd, cfg.arwnd, cfg.il, cfg.cbWrite, sq), c10Scenario(cfg, sq), Budget{}, nil)
					return
				}
				for e := 0; e < nC10Events; e++ {
					seq[i] = e
					rec(i + 1)
				}
			}
			rec(0)
		}
	}
	// new data written from the low-threshold callback while a SACK is being processed: every
	// schedule with one deviation (the write loop may run inside the window in which the read
	// loop has released the association lock)
	{
		// (the small-MTU configuration is the one in which F34 showed: a SACK that acknowledges
		// everything with a one-chunk a_rwnd, the callback writing a two-fragment message)
		cbCfgs := []c10Cfg{{mtu: 1191, arwnd: 3000, cbWrite: true}, {mtu: 100, arwnd: 1500, cbWrite: true, il: true}}
		alpha := []int{evWP, evW3, evSackAll, evSackAllSmall, evSackOne}
		for _, cfg := range cbCfgs {
			for _, e0 := range []int{evWP, evW3} {
				for _, e1 := range alpha {
					for _, e2 := range alpha {
						sq := []int{e0, e1, e2}
						j.Explore(fmt.Sprintf("FD/mtu%d/rw%d/il%v/cb/%v", cfg.mtu, cfg.arwnd, cfg.il, sq), c10Scenario(cfg, sq), Budget{D: 1}, nil)
						if j.capped() {
							return
						}
					}
				}
			}
		}
	}
	// the two-endpoint transfer families with the flow monitor
	modes := stdModes()
	var cases []xferCase
	cases = append(cases, famW1(modes, []uint32{0}, 1)...)
	cases = append(cases, famZ1(modes, 1)...)
	cases = append(cases, famW2(modes[:1], 1)...)
	runCases(j, cases, func(spec *xferSpec) func(m *Sim, x *Exec, r *xferResult) {
		return deliveryFinal(spec, false, monOpts{Flow: true})
	})
	// associations set up from out-of-band tokens, asymmetric receive buffers: the first
	// flight is bounded by the window in the peer's token
	var snap []xferCase
	for _, mode := range modes {
		for _, rb := range [][2]uint32{{0, 1500}, {1500, 0}, {3000, 1500}} {
			a, b := withBase(mode.A, 1200, 0xFFFFFFFA, 4000), withBase(mode.B, 1200, 9, 4000)
			a.Server, b.Server = false, false
			a.RecvBuf, b.RecvBuf = rb[0], rb[1]
			snap = append(snap, xferCase{Name: fmt.Sprintf("SNAP/%s/rb%d-%d", mode.Name, rb[0], rb[1]), K: 1,
				Spec: &xferSpec{A: a, B: b, SNAP: true, Faults: faultSet{Drop: true}, Streams: []streamSpec{
					{SID: 1, From: 0, Msgs: msgsOf([]int{900, 1000, 1100, 40})}, {SID: 2, From: 1, Msgs: msgsOf([]int{1000, 900, 30})}}}})
		}
	}
	runCases(j, snap, func(spec *xferSpec) func(m *Sim, x *Exec, r *xferResult) {
		win := func(c epCfg) uint32 {
			if c.RecvBuf != 0 {
				return c.RecvBuf
			}
			return initialRecvBufSize
		}
		return deliveryFinal(spec, false, monOpts{Flow: true, Snap: true, SnapARwnd: [2]uint32{win(spec.A), win(spec.B)},
			SnapIL: [2]bool{!spec.A.NoInterleave, !spec.B.NoInterleave}, SnapZC: [2]bool{spec.A.ZeroChecksum, spec.B.ZeroChecksum}})
	})
}
