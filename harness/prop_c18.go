package sctp

import (
	"context"
	"errors"
	"fmt"
	"io"
	"strings"
	"time"

	"github.com/pion/sctp/internal/vsched"
)

func init() { register("C18", propC18) }

type apiProgSpec struct {
	A, B      epCfg
	Unordered bool
	Ops       string // sequence over 1 (1 byte) 3 (3P bytes) 0 (empty) X (max+1) C (close stream, then a write) S (short-buffer read before the normal ones) T (a read on the writing side times out)
	ReadBuf   int
}

// progScenario: A runs the write program on one stream; B reads everything.
func progScenario(spec *apiProgSpec) *Scenario {
	return &Scenario{
		Name:    "apiprog",
		Horizon: 120 * time.Second,
		Body: func(m *Sim) {
			if !m.Connect(spec.A, spec.B) {
				m.Failf("connect", "handshake failed: %v %v", m.Err[0], m.Err[1])
				m.closeFailedTransports()
				m.CloseBoth()
				return
			}
			il := !spec.A.NoInterleave && !spec.B.NoInterleave
			P := int(maxPayloadSizeForMTU(spec.A.MTU, il))
			maxMsg := int(m.As[0].MaxMessageSize())
			sa, _ := m.As[0].OpenStream(1, PayloadTypeWebRTCBinary)
			sb, _ := m.As[1].OpenStream(1, PayloadTypeWebRTCBinary)
			m.streamsSeen = append(m.streamsSeen, sa, sb)
			sa.SetReliabilityParams(spec.Unordered, ReliabilityTypeReliable, 0)
			var want []string
			closedStream := false
			for i, op := range spec.Ops {
				var data []byte
				switch op {
				case '1':
					data = payload(1, i, 4)
				case '3':
					data = payload(1, i, 3*P)
				case '0':
					data = []byte{}
				case 'X':
					data = make([]byte, maxMsg+1)
				case 'T':
					// a read on the writing side that runs into its deadline (the stream keeps
					// the expired deadline until it is re-armed)
					_ = sa.SetReadDeadline(time.Now().Add(20 * time.Millisecond))
					if n, _, err := sa.ReadSCTP(make([]byte, 64)); !errors.Is(err, ErrReadDeadlineExceeded) {
						m.Failf("api.deadline", "read with nothing to read and a 20 ms deadline returned n=%d err=%v", n, err)
					}
					continue
				case 'C':
					if err := sa.Close(); err != nil {
						m.Failf("close", "stream Close: %v", err)
					}
					closedStream = true
					continue
				default:
					continue
				}
				nEv := len(m.W.events)
				buffered := sa.BufferedAmount()
				n, err := sa.WriteSCTP(data, PayloadTypeWebRTCBinary)
				m.Logf(fmt.Sprintf("write #%d %c len=%d", i, op, len(data)), "n=%d err=%v", n, err)
				shouldFail := op == 'X' || closedStream
				switch {
				case shouldFail:
					if err == nil || n != 0 {
						m.Failf("api.reject", "write %c (len %d, stream closed=%v) returned n=%d err=%v, want an error and n=0", op, len(data), closedStream, n, err)
					}
					if op == 'X' && !errors.Is(err, ErrOutboundPacketTooLarge) {
						m.Failf("api.reject", "oversize write returned %v, want ErrOutboundPacketTooLarge", err)
					}
					if b := sa.BufferedAmount(); b != buffered {
						m.Failf("api.sideeffect", "rejected write %c changed BufferedAmount from %d to %d", op, buffered, b)
					}
					// nothing of it may reach the wire
					m.WaitUntil("settle", 300*time.Millisecond, func() bool { return false })
					for _, ev := range m.W.events[nEv:] {
						if ev.Kind == "send" && ev.From == 0 && ev.Pkt.dec != nil {
							for _, c := range ev.Pkt.dec.Chunks {
								if (c.Typ == wDATA || c.Typ == wIDATA) && len(c.Data) > 0 && !strings.Contains(strings.Join(want, "\x00"), string(c.Data)) {
									m.Failf("api.sideeffect", "rejected write %c put user data on the wire: %s", op, c.Summary())
								}
							}
						}
					}
				case op == '0':
					if n != 0 {
						m.Failf("api.empty", "empty write returned n=%d err=%v", n, err)
					}
					if b := sa.BufferedAmount(); b != buffered {
						m.Failf("api.sideeffect", "empty write changed BufferedAmount from %d to %d", buffered, b)
					}
				default:
					if err != nil || n != len(data) {
						m.Failf("api.write", "write %c returned n=%d err=%v", op, n, err)
					} else {
						want = append(want, string(data))
					}
				}
			}
			// the reader: optionally a short-buffer read first
			var got []string
			done := m.Go("reader", func() {
				if strings.Contains(spec.Ops, "S") && len(want) > 0 {
					small := make([]byte, 2)
					n, _, err := sb.ReadSCTP(small)
					if !errors.Is(err, io.ErrShortBuffer) {
						m.Failf("api.shortbuffer", "read into a 2-byte buffer returned n=%d err=%v, want io.ErrShortBuffer", n, err)
					}
				}
				buf := make([]byte, maxMsg+16)
				for len(got) < len(want) {
					n, _, err := sb.ReadSCTP(buf)
					if err != nil {
						m.Logf("read", "err=%v", err)
						return
					}
					got = append(got, string(buf[:n]))
				}
			})
			ok := m.WaitUntil("all-read", 60*time.Second, func() bool { return done.Done })
			if !ok || len(got) != len(want) {
				m.Failf("api.delivery", "after program %q only %d of %d accepted messages were delivered (a failed or empty write disturbed the stream)", spec.Ops, len(got), len(want))
			} else if !spec.Unordered {
				for i := range want {
					if got[i] != want[i] {
						m.Failf("api.delivery", "program %q: message %d differs", spec.Ops, i)
						break
					}
				}
			} else {
				left := map[string]int{}
				for _, w := range want {
					left[w]++
				}
				for _, g := range got {
					left[g]--
				}
				for _, c := range left {
					if c != 0 {
						m.Failf("api.delivery", "program %q: delivered multiset differs from the accepted writes", spec.Ops)
						break
					}
				}
			}
			m.Observe("ops=%s got=%d", spec.Ops, len(got))
			m.CloseBoth()
			m.S.Join(done)
		},
		Final: func(m *Sim, x *Exec) { generalVerdicts(m, x, false) },
	}
}

// deadlineScenario: a read deadline placed before / exactly at / after the arrival of a message.
type dlSpec struct {
	A, B   epCfg
	Offset time.Duration // deadline relative to the arrival instant of the first message
	// Idle: the reader is not inside a read when the deadline expires; it first calls ReadSCTP
	// IdleFor after the arrival instant (the deadline has fired, a message is readable).
	Idle    bool
	IdleFor time.Duration
}

func deadlineScenario(spec *dlSpec) *Scenario {
	return &Scenario{
		Name:    "readdeadline",
		Horizon: 60 * time.Second,
		Body: func(m *Sim) {
			if !m.Connect(spec.A, spec.B) {
				m.Failf("connect", "handshake failed")
				m.closeFailedTransports()
				m.CloseBoth()
				return
			}
			sa, _ := m.As[0].OpenStream(1, PayloadTypeWebRTCBinary)
			sb, _ := m.As[1].OpenStream(1, PayloadTypeWebRTCBinary)
			m.streamsSeen = append(m.streamsSeen, sa, sb)
			// the message is written at t0+100ms and arrives one link delay (10 ms) later
			t0 := m.S.Now()
			arrival := t0 + 100*time.Millisecond + m.W.delay[0]
			deadline := arrival + spec.Offset
			var results []string
			var got []string
			rd := m.Go("reader", func() {
				_ = sb.SetReadDeadline(time.Now().Add(deadline - m.S.Now()))
				if spec.Idle {
					m.Sleep(arrival + spec.IdleFor - m.S.Now())
				}
				buf := make([]byte, 2000)
				for len(got) < 2 {
					n, _, err := sb.ReadSCTP(buf)
					now := m.S.Now()
					if err != nil {
						results = append(results, fmt.Sprintf("err@%v", now))
						if !errors.Is(err, ErrReadDeadlineExceeded) {
							m.Failf("deadline.error", "read failed with %v", err)
							return
						}
						if now != deadline && !spec.Idle {
							m.Failf("deadline.instant", "blocked read returned the deadline error at %v, the deadline was %v", now, deadline)
						}
						_ = sb.SetReadDeadline(time.Time{})
						continue
					}
					if now < arrival {
						m.Failf("deadline.early", "read returned data at %v before it arrived (%v)", now, arrival)
					}
					got = append(got, string(buf[:n]))
					results = append(results, fmt.Sprintf("msg@%v", now))
				}
			})
			m.Sleep(100 * time.Millisecond)
			w1, w2 := payload(1, 0, 40), payload(1, 1, 41)
			sa.WriteSCTP(w1, PayloadTypeWebRTCBinary)
			m.Sleep(300 * time.Millisecond)
			sa.WriteSCTP(w2, PayloadTypeWebRTCBinary)
			ok := m.WaitUntil("reader-done", 30*time.Second, func() bool { return rd.Done })
			if !ok || len(got) != 2 || got[0] != string(w1) || got[1] != string(w2) {
				m.Failf("deadline.delivery", "with a read deadline %v relative to the arrival: reads %v, messages read %d of 2 (lost or duplicated)", spec.Offset, results, len(got))
			}
			m.Observe("%v", results)
			m.CloseBoth()
			m.S.Join(rd)
		},
		Final: func(m *Sim, x *Exec) { generalVerdicts(m, x, true) },
	}
}

// blockScenario: blocking-write mode, concurrent writers, one write that hits its deadline
// while the peer's window is closed.
type blockSpec struct {
	A, B      epCfg
	Writers   int
	Unordered bool
	PPI       PayloadProtocolIdentifier
	// SameStream: all writers share stream 1; only writer 0 ever sets (and clears) the
	// write deadline, so another writer queued behind its failing write goes on to succeed.
	SameStream bool
	// Rearm: another goroutine clears the write deadline of the stream in the very instant it
	// expires under a blocked write (a write either fails with nothing sent or is delivered)
	Rearm bool
	// CloseMid: (SameStream) the shared stream is closed while writer 0 waits with its deadline
	// and writer 1 is queued behind it; afterwards a writer on another stream writes: it waits
	// its turn like any other (a refused write has no effect on the queue discipline)
	CloseMid bool
}

func blockScenario(spec *blockSpec) *Scenario {
	return &Scenario{
		Name:    "blockwrite",
		Horizon: 200 * time.Second,
		Body: func(m *Sim) {
			if !m.Connect(spec.A, spec.B) {
				m.Failf("connect", "handshake failed")
				m.closeFailedTransports()
				m.CloseBoth()
				return
			}
			if spec.Rearm {
				m.S.YieldAfterSelect = true
			}
			mu := &m.mu
			a := m.As[0]
			returned := map[string]bool{} // payloads of writes that have returned
			want := map[uint16][]string{}
			var ws []*vsched.Thread
			var readers []*vsched.Thread
			got := map[uint16][]string{}
			for w := 0; w < spec.Writers; w++ {
				sid := uint16(1 + w)
				var sa, sb *Stream
				if spec.SameStream {
					sid = 1
				}
				if !spec.SameStream || w == 0 {
					sa, _ = a.OpenStream(sid, PayloadTypeWebRTCBinary)
					sb, _ = m.As[1].OpenStream(sid, PayloadTypeWebRTCBinary)
					m.streamsSeen = append(m.streamsSeen, sa, sb)
					sa.SetReliabilityParams(spec.Unordered, ReliabilityTypeReliable, 0)
				} else {
					sa = a.streams[sid]
				}
				ppi := spec.PPI
				if ppi == 0 {
					ppi = PayloadTypeWebRTCBinary
				}
				w := w
				if !spec.SameStream || w == 0 {
					readers = append(readers, m.Go(fmt.Sprintf("reader%d", sid), func() {
						m.Sleep(3 * time.Second) // let the window close first
						buf := make([]byte, 4000)
						for {
							n, _, err := sb.ReadSCTP(buf)
							if err != nil {
								return
							}
							mu.Lock()
							got[sid] = append(got[sid], string(buf[:n]))
							mu.Unlock()
						}
					}))
				}
				ws = append(ws, m.Go(fmt.Sprintf("writer%d.%d", sid, w), func() {
					for i := 0; i < 5; i++ {
						data := payload(sid, w*8+i, 500)
						if spec.SameStream {
							if w == 0 && i == 2 {
								_ = sa.SetWriteDeadline(time.Now().Add(400 * time.Millisecond))
							}
						} else if (i == 3 && !spec.Rearm) || (i == 4 && spec.Rearm) {
							// (with a single writer it is the fifth write that finds the window closed)
							_ = sa.SetWriteDeadline(time.Now().Add(400 * time.Millisecond))
							if spec.Rearm {
								readers = append(readers, m.Go(fmt.Sprintf("rearm%d", sid), func() {
									m.Sleep(400 * time.Millisecond)
									_ = sa.SetWriteDeadline(time.Time{})
								}))
							}
						} else {
							_ = sa.SetWriteDeadline(time.Time{})
						}
						n, err := sa.WriteSCTP(data, ppi)
						m.Logf(fmt.Sprintf("bwrite sid=%d #%d", sid, i), "n=%d err=%v", n, err)
						if err != nil {
							if spec.SameStream && w == 0 {
								_ = sa.SetWriteDeadline(time.Time{})
							}
							if n != 0 {
								m.Failf("block.reject", "failed blocking write returned n=%d", n)
							}
							// the failed write must not be counted: the figure equals what is really outstanding
							if b, u := int(sa.BufferedAmount()), unackedOf(a, sid); b != u && !spec.SameStream {
								m.Failf("block.sideeffect", "after a failed blocking write stream %d reports %d buffered bytes but %d are pending or unacknowledged", sid, b, u)
							}
							m.S.Yield()
							continue
						}
						// at the return of a blocking write no chunk of an EARLIER write is still pending
						mu.Lock()
						if _, nb, ok := pendingContents(a.pendingQueue); ok && nb > 0 {
							for _, c := range pendingChunks(a.pendingQueue) {
								for old := range returned {
									if len(c.userData) > 0 && isFragmentOf(old, string(c.userData), int(a.maxPayloadSize)) {
										m.viol = append(m.viol, Violation{Oracle: "block.order", Msg: fmt.Sprintf("write #%d on stream %d returned while data of an earlier write is still in the pending queue", i, sid)})
									}
								}
							}
						}
						returned[string(data)] = true
						want[sid] = append(want[sid], string(data))
						mu.Unlock()
						m.S.Yield()
					}
				}))
			}
			if spec.CloseMid {
				if s1 := a.streams[1]; s1 != nil {
					m.Sleep(200 * time.Millisecond)
					_ = s1.Close()
				}
				m.Sleep(400 * time.Millisecond) // writer 0 has given up, writer 1 was refused
				sx, _ := a.OpenStream(9, PayloadTypeWebRTCBinary)
				sbx, _ := m.As[1].OpenStream(9, PayloadTypeWebRTCBinary)
				m.streamsSeen = append(m.streamsSeen, sx, sbx)
				readers = append(readers, m.Go("reader9", func() {
					m.Sleep(3 * time.Second)
					buf := make([]byte, 4000)
					for {
						n, _, err := sbx.ReadSCTP(buf)
						if err != nil {
							return
						}
						mu.Lock()
						got[9] = append(got[9], string(buf[:n]))
						mu.Unlock()
					}
				}))
				data := payload(9, 0, 500)
				if _, err := sx.WriteSCTP(data, PayloadTypeWebRTCBinary); err == nil {
					mu.Lock()
					if _, nb, ok := pendingContents(a.pendingQueue); ok && nb > 0 {
						for _, c := range pendingChunks(a.pendingQueue) {
							for old := range returned {
								if len(c.userData) > 0 && isFragmentOf(old, string(c.userData), int(a.maxPayloadSize)) {
									m.viol = append(m.viol, Violation{Oracle: "block.order", Msg: "a write on another stream returned while data of an earlier write is still in the pending queue (after a write on a closed stream had been refused)"})
								}
							}
						}
					}
					want[9] = append(want[9], string(data))
					mu.Unlock()
				}
			}
			m.Join(ws...)
			ok := m.WaitUntil("drain", 120*time.Second, func() bool {
				if !drained(a) {
					return false
				}
				for sid, w := range want {
					if len(got[sid]) < len(w) {
						return false
					}
				}
				return true
			})
			if !ok {
				m.Failf("block.delivery", "blocking-write run did not drain: buffered=%d", bufAmt(a))
			}
			for sid, w := range want {
				g := got[sid]
				if len(g) != len(w) {
					m.Failf("block.delivery", "stream %d: %d of %d accepted messages delivered (a failed write disturbed the stream)", sid, len(g), len(w))
					continue
				}
				ordered := (!spec.Unordered || spec.PPI == PayloadTypeWebRTCDCEP) && !spec.SameStream
				left := map[string]int{}
				for i := range w {
					left[w[i]]++
					left[g[i]]--
					if ordered && g[i] != w[i] {
						m.Failf("block.delivery", "stream %d: message %d differs", sid, i)
						break
					}
				}
				for _, c := range left {
					if c != 0 {
						m.Failf("block.delivery", "stream %d: delivered multiset differs from the accepted writes", sid)
						break
					}
				}
			}
			m.Observe("want=%d", len(want))
			m.CloseBoth()
			m.Join(readers...)
		},
		Final: func(m *Sim, x *Exec) { generalVerdicts(m, x, false) },
	}
}

func isFragmentOf(msg, frag string, P int) bool {
	for off := 0; off < len(msg); off += P {
		end := off + P
		if end > len(msg) {
			end = len(msg)
		}
		if msg[off:end] == frag {
			return true
		}
	}
	return false
}

func pendingChunks(q *pendingQueue) []*chunkPayloadData {
	var out []*chunkPayloadData
	walk := func(b *pendingBaseQueue) {
		if b != nil {
			out = append(out, b.queue...)
		}
	}
	switch p := q.policy.(type) {
	case *messagePendingQueuePolicy:
		walk(p.unorderedQueue)
		walk(p.orderedQueue)
	case *interleavingStreamSchedulerPolicy:
		switch sch := p.scheduler.(type) {
		case *roundRobinPendingQueuePolicy:
			for _, k := range vsched.SortedKeys(sch.streamQueues) {
				walk(sch.streamQueues[k])
			}
		case *weightedFairQueueingPendingQueuePolicy:
			for _, k := range vsched.SortedKeys(sch.streamQueues) {
				walk(sch.streamQueues[k])
			}
		}
	}
	return out
}

func propC18(j *Job) {
	modes := stdModes()
	// blocking writes against a window that closes and reopens (the last queued chunk can leave
	// as a window probe): every write returns, and what it accepted is delivered
	runCases(j, famZ7(modes[:2], 0), func(spec *xferSpec) func(m *Sim, x *Exec, r *xferResult) {
		return deliveryFinal(spec, false, monOpts{})
	})
	// (1) all call programs up to a length over the alphabet
	alphabet := []byte{'1', '3', '0', 'X'}
	maxLen := 3
	if j.Thorough() {
		maxLen = 4
	}
	var progs []string
	var gen func(p string)
	gen = func(p string) {
		if len(p) > 0 {
			progs = append(progs, p)
		}
		if len(p) == maxLen {
			return
		}
		for _, c := range alphabet {
			gen(p + string(c))
		}
	}
	gen("")
	progs = append(progs, "1C1", "3C3", "C1", "1S", "3S3", "10S", "0", "00", "X1S", "TC1", "1TC3", "T1", "1T3S")
	for mi, mode := range modes {
		for _, u := range []bool{false, true} {
			for _, p := range progs {
				a := withBase(mode.A, 100, 0xFFFFFFFE, 4000)
				a.MaxMsg = 700
				b := withBase(mode.B, 100, 6, 4000)
				spec := &apiProgSpec{A: a, B: b, Unordered: u, Ops: p}
				j.Explore(fmt.Sprintf("P/%s/U%v/%s", mode.Name, u, p), progScenario(spec), Budget{}, nil)
				if j.capped() {
					return
				}
				if strings.Contains(p, "0") && (mi == 0 || j.Thorough()) {
					// the same program in blocking-write mode (a write waits for the previous one)
					ab := a
					ab.BlockWrite = true
					bs := &apiProgSpec{A: ab, B: b, Unordered: u, Ops: p}
					j.Explore(fmt.Sprintf("P/%s/U%v/%s/block", mode.Name, u, p), progScenario(bs), Budget{}, nil)
					if j.capped() {
						return
					}
				}
			}
		}
	}
	// (2) read deadline vs arrival: every schedule with <= D deviations
	for _, mode := range modes {
		for _, off := range []time.Duration{-10 * time.Millisecond, 0, 10 * time.Millisecond, 200 * time.Millisecond} {
			spec := &dlSpec{A: withBase(mode.A, 228, 3, 4000), B: withBase(mode.B, 228, 4, 4000), Offset: off}
			d := 1
			if j.Thorough() && off == 0 {
				d = 2
			}
			j.Explore(fmt.Sprintf("D/%s/off%v", mode.Name, off), deadlineScenario(spec), Budget{D: d}, nil)
			if j.capped() {
				return
			}
			for _, idle := range []time.Duration{0, 50 * time.Millisecond} {
				is := *spec
				is.Idle, is.IdleFor = true, idle
				j.Explore(fmt.Sprintf("D/%s/off%v/idle%v", mode.Name, off, idle), deadlineScenario(&is), Budget{D: d}, nil)
				if j.capped() {
					return
				}
			}
		}
	}
	for mi, mode := range modes {
		if mi > 0 && !j.Thorough() {
			break
		}
		for _, clr := range []bool{false, true} {
			j.Explore(fmt.Sprintf("DX/%s/clear%v", mode.Name, clr), extendAtExpiryScenario(withBase(mode.A, 228, 3, 4000), withBase(mode.B, 228, 4, 4000), clr), Budget{D: 2}, nil)
			if j.capped() {
				return
			}
		}
	}
	for _, mode := range modes {
		for _, inb := range []bool{false, true} {
			j.Explore(fmt.Sprintf("PPI/%s/inbound%v", mode.Name, inb), defaultPPIScenario(withBase(mode.A, 228, 3, 4000), withBase(mode.B, 228, 4, 4000), inb), Budget{}, nil)
		}
	}
	for mi, mode := range modes {
		for _, n := range []int{2, 3} {
			if !j.Thorough() && mi > 0 && n == 3 {
				continue
			}
			for _, past := range []time.Duration{0, time.Second} {
				j.Explore(fmt.Sprintf("DI/%s/readers%d/past%v", mode.Name, n, past), interruptReadersScenario(withBase(mode.A, 228, 3, 4000), withBase(mode.B, 228, 4, 4000), n, past), Budget{D: 1}, nil)
			}
			j.Explore(fmt.Sprintf("D2/%s/readers%d", mode.Name, n), twoReadersDeadlineScenario(withBase(mode.A, 228, 3, 4000), withBase(mode.B, 228, 4, 4000), n), Budget{D: 1}, nil)
			if j.capped() {
				return
			}
		}
	}
	for mi, mode := range modes {
		if mi == 1 && !j.Thorough() {
			continue
		}
		j.Explore(fmt.Sprintf("WS/%s", mode.Name), writersVsShutdownScenario(withBase(mode.A, 228, 3, 4000), withBase(mode.B, 228, 4, 4000)), Budget{D: 2}, nil)
		if j.capped() {
			return
		}
	}
	// (3) blocking-write mode
	for _, mode := range modes {
		for _, nw := range []int{1, 2, 3} {
			a := withBase(mode.A, 228, 0xFFFFFFF0, 4000)
			a.BlockWrite = true
			b := withBase(mode.B, 228, 4, 4000)
			b.RecvBuf = 1500
			for vi, v := range []struct {
				u   bool
				ppi PayloadProtocolIdentifier
			}{{false, PayloadTypeWebRTCBinary}, {true, PayloadTypeWebRTCDCEP}, {true, PayloadTypeWebRTCBinary}} {
				spec := &blockSpec{A: a, B: b, Writers: nw, Unordered: v.u, PPI: v.ppi}
				d := 0
				if nw == 2 && vi == 0 {
					d = 1
				}
				if j.Thorough() {
					d = 1
					if nw <= 2 && vi == 0 {
						d = 2
					}
				}
				j.Explore(fmt.Sprintf("BW/%s/w%d/U%v/ppi%d", mode.Name, nw, v.u, v.ppi), blockScenario(spec), Budget{D: d}, nil)
				if j.capped() {
					return
				}
				if nw == 1 && (vi == 0 || j.Thorough()) {
					rs := *spec
					rs.Rearm = true
					j.Explore(fmt.Sprintf("BW/%s/w%d/U%v/ppi%d/rearm", mode.Name, nw, v.u, v.ppi), blockScenario(&rs), Budget{D: map[bool]int{false: 1, true: 2}[j.Thorough()]}, nil)
					if j.capped() {
						return
					}
				}
				if nw == 2 && vi == 0 {
					cs := *spec
					cs.SameStream, cs.CloseMid = true, true
					j.Explore(fmt.Sprintf("BW/%s/w%d/U%v/ppi%d/same-close", mode.Name, nw, v.u, v.ppi), blockScenario(&cs), Budget{D: 1}, nil)
					if j.capped() {
						return
					}
				}
				if nw >= 2 && (j.Thorough() || (nw == 2 && vi == 0)) {
					ss := *spec
					ss.SameStream = true
					j.Explore(fmt.Sprintf("BW/%s/w%d/U%v/ppi%d/same", mode.Name, nw, v.u, v.ppi), blockScenario(&ss), Budget{D: 1}, nil)
					if j.capped() {
						return
					}
				}
			}
		}
	}
}

// twoReadersDeadlineScenario: two goroutines are blocked in ReadSCTP on one stream when its
// read deadline expires: both must come back with the deadline error at that instant.
// interruptReadersScenario: goroutines are blocked in ReadSCTP on an idle stream when another
// goroutine sets the read deadline to an instant that has already passed (the net.Conn idiom for
// interrupting a reader): they all come back with the deadline error at once, and the message
// that arrives later is read normally after the deadline was cleared.
func interruptReadersScenario(a, b epCfg, nReaders int, past time.Duration) *Scenario {
	return &Scenario{
		Name:    "interrupt-readers",
		Horizon: 60 * time.Second,
		Body: func(m *Sim) {
			if !m.Connect(a, b) {
				m.Failf("connect", "handshake failed")
				m.closeFailedTransports()
				m.CloseBoth()
				return
			}
			sa, _ := m.As[0].OpenStream(1, PayloadTypeWebRTCBinary)
			sb, _ := m.As[1].OpenStream(1, PayloadTypeWebRTCBinary)
			m.streamsSeen = append(m.streamsSeen, sa, sb)
			back := map[string]time.Duration{}
			var ts []*vsched.Thread
			for i := 0; i < nReaders; i++ {
				name := fmt.Sprintf("rd%d", i)
				ts = append(ts, m.Go(name, func() {
					buf := make([]byte, 100)
					_, _, err := sb.ReadSCTP(buf)
					if !errors.Is(err, ErrReadDeadlineExceeded) {
						m.Failf("deadline.error", "%s: interrupted read returned %v", name, err)
					}
					m.mu.Lock()
					back[name] = m.S.Now()
					m.mu.Unlock()
				}))
			}
			m.Sleep(300 * time.Millisecond)
			t0 := m.S.Now()
			_ = sb.SetReadDeadline(time.Now().Add(-past))
			m.WaitUntil("readers-back", 5*time.Second, func() bool {
				for _, t := range ts {
					if !t.Done {
						return false
					}
				}
				return true
			})
			for _, t := range ts {
				m.mu.Lock()
				at, ok := back[t.Name]
				m.mu.Unlock()
				if !ok {
					m.Failf("deadline.instant", "%d readers blocked on an idle stream: %s is still blocked 5 s after the read deadline was set to an instant %v in the past", nReaders, t.Name, past)
				} else if at != t0 {
					m.Failf("deadline.instant", "%s returned at %v, the deadline was set (to the past) at %v", t.Name, at, t0)
				}
			}
			// the stream is intact: clear the deadline, a message written now is read
			_ = sb.SetReadDeadline(time.Time{})
			want := payload(1, 0, 40)
			_, _ = sa.WriteSCTP(want, PayloadTypeWebRTCBinary)
			buf := make([]byte, 100)
			if n, _, err := sb.ReadSCTP(buf); err != nil || string(buf[:n]) != string(want) {
				m.Failf("deadline.lost", "after the interruption the next message was read as n=%d err=%v", n, err)
			}
			m.CloseBoth()
			m.Join(ts...)
		},
		Final: func(m *Sim, x *Exec) { generalVerdicts(m, x, true) },
	}
}

func twoReadersDeadlineScenario(a, b epCfg, nReaders int) *Scenario {
	return &Scenario{
		Name:    "readdeadline2",
		Horizon: 60 * time.Second,
		Body: func(m *Sim) {
			if !m.Connect(a, b) {
				m.Failf("connect", "handshake failed")
				m.closeFailedTransports()
				m.CloseBoth()
				return
			}
			sa, _ := m.As[0].OpenStream(1, PayloadTypeWebRTCBinary)
			sb, _ := m.As[1].OpenStream(1, PayloadTypeWebRTCBinary)
			m.streamsSeen = append(m.streamsSeen, sa, sb)
			deadline := m.S.Now() + 300*time.Millisecond
			_ = sb.SetReadDeadline(time.Now().Add(300 * time.Millisecond))
			back := map[string]time.Duration{}
			var ts []*vsched.Thread
			for i := 0; i < nReaders; i++ {
				name := fmt.Sprintf("rd%d", i)
				ts = append(ts, m.Go(name, func() {
					buf := make([]byte, 100)
					_, _, err := sb.ReadSCTP(buf)
					if !errors.Is(err, ErrReadDeadlineExceeded) {
						m.Failf("deadline.error", "%s: blocked read returned %v", name, err)
					}
					m.mu.Lock()
					back[name] = m.S.Now()
					m.mu.Unlock()
				}))
			}
			m.WaitUntil("readers-back", 5*time.Second, func() bool {
				for _, t := range ts {
					if !t.Done {
						return false
					}
				}
				return true
			})
			for _, t := range ts {
				m.mu.Lock()
				at, ok := back[t.Name]
				m.mu.Unlock()
				if !ok {
					m.Failf("deadline.instant", "%d readers blocked on one stream: %s is still blocked 5 s after the read deadline (%v) expired", nReaders, t.Name, deadline)
				} else if at != deadline {
					m.Failf("deadline.instant", "%s returned the deadline error at %v, the deadline was %v", t.Name, at, deadline)
				}
			}
			m.Observe("back=%d", len(back))
			m.CloseBoth()
			m.Join(ts...)
		},
		Final: func(m *Sim, x *Exec) { generalVerdicts(m, x, true) },
	}
}

// defaultPPIScenario: Stream.Write (the io.Writer entry point) sends with the payload type the
// stream was opened with, whatever traffic the stream has received in the meantime.
func defaultPPIScenario(a, b epCfg, inboundFirst bool) *Scenario {
	return &Scenario{
		Name:    "defaultppi",
		Horizon: 60 * time.Second,
		Body: func(m *Sim) {
			if !m.Connect(a, b) {
				m.Failf("connect", "handshake failed")
				m.closeFailedTransports()
				m.CloseBoth()
				return
			}
			sa, _ := m.As[0].OpenStream(1, PayloadTypeWebRTCString)
			sb, _ := m.As[1].OpenStream(1, PayloadTypeWebRTCBinary)
			m.streamsSeen = append(m.streamsSeen, sa, sb)
			buf := make([]byte, 200)
			if inboundFirst {
				if _, err := sb.WriteSCTP(payload(1, 0, 20), PayloadTypeWebRTCBinary); err != nil {
					m.Failf("api.write", "write: %v", err)
				}
				if _, _, err := sa.ReadSCTP(buf); err != nil {
					m.Failf("api.read", "read: %v", err)
				}
			}
			for i := 1; i <= 2; i++ {
				msg := payload(1, i, 30)
				if n, err := sa.Write(msg); err != nil || n != len(msg) {
					m.Failf("api.write", "Write: n=%d err=%v", n, err)
				}
				n, ppi, err := sb.ReadSCTP(buf)
				if err != nil || string(buf[:n]) != string(msg) {
					m.Failf("api.delivery", "message %d written with Write was not delivered intact (n=%d err=%v)", i, n, err)
				} else if ppi != PayloadTypeWebRTCString {
					m.Failf("api.ppi", "message %d written with Write on a stream opened with payload type %d arrived with payload type %d (inbound data before the write: %v)", i, PayloadTypeWebRTCString, ppi, inboundFirst)
				}
			}
			m.Observe("ok")
			m.CloseBoth()
		},
		Final: func(m *Sim, x *Exec) { generalVerdicts(m, x, true) },
	}
}

// extendAtExpiryScenario: the keep-alive pattern SetReadDeadline(now+X); Read() where the
// extension lands on the very instant the previous deadline expires.  The new deadline is
// what counts: the read blocks until the message arrives and returns it.
func extendAtExpiryScenario(a, b epCfg, clear bool) *Scenario {
	return &Scenario{
		Name:    "readdeadline-extend",
		Horizon: 60 * time.Second,
		Setup:   func(m *Sim) { m.S.SuspendTimers = true },
		Body: func(m *Sim) {
			if !m.Connect(a, b) {
				m.Failf("connect", "handshake failed")
				m.closeFailedTransports()
				m.CloseBoth()
				return
			}
			sa, _ := m.As[0].OpenStream(1, PayloadTypeWebRTCBinary)
			sb, _ := m.As[1].OpenStream(1, PayloadTypeWebRTCBinary)
			m.streamsSeen = append(m.streamsSeen, sa, sb)
			msg := payload(1, 0, 33)
			var rn int
			var rerr error
			var at time.Duration
			rd := m.Go("reader", func() {
				_ = sb.SetReadDeadline(time.Now().Add(100 * time.Millisecond))
				m.Sleep(100 * time.Millisecond)
				if clear {
					_ = sb.SetReadDeadline(time.Time{})
				} else {
					_ = sb.SetReadDeadline(time.Now().Add(time.Hour))
				}
				buf := make([]byte, 200)
				rn, _, rerr = sb.ReadSCTP(buf)
				at = m.S.Now()
				if rerr == nil && string(buf[:rn]) != string(msg) {
					m.Failf("deadline.delivery", "read returned other bytes than were written")
				}
			})
			m.Sleep(150 * time.Millisecond)
			_, _ = sa.WriteSCTP(msg, PayloadTypeWebRTCBinary)
			ok := m.WaitUntil("reader-done", 10*time.Second, func() bool { return rd.Done })
			if !ok {
				m.Failf("deadline.delivery", "reader still blocked 10 s after the message was written")
			} else if rerr != nil {
				m.Failf("deadline.stale", "the read deadline was replaced at the instant it expired; the read under the new deadline returned %v at %v instead of the message written at 150 ms (the cancelled deadline still fired)", rerr, at)
			}
			m.Observe("err=%v", rerr)
			m.CloseBoth()
			m.S.Join(rd)
		},
		Final: func(m *Sim, x *Exec) { generalVerdicts(m, x, true) },
	}
}

// writersVsShutdownScenario: two goroutines write on the same ordered stream (non-blocking
// mode) while a third calls Shutdown.  Whatever the interleaving, a write either fails without
// any effect or its message is delivered: when Shutdown returns nil the peer has read exactly
// the accepted messages.
func writersVsShutdownScenario(a, b epCfg) *Scenario {
	return &Scenario{
		Name:    "writers-vs-shutdown",
		Horizon: 120 * time.Second,
		Body: func(m *Sim) {
			if !m.Connect(a, b) {
				m.Failf("connect", "handshake failed")
				m.closeFailedTransports()
				m.CloseBoth()
				return
			}
			sa, _ := m.As[0].OpenStream(1, PayloadTypeWebRTCBinary)
			sb, _ := m.As[1].OpenStream(1, PayloadTypeWebRTCBinary)
			m.streamsSeen = append(m.streamsSeen, sa, sb)
			mu := &m.mu
			accepted := map[string]bool{}
			var got []string
			rd := m.Go("reader", func() {
				buf := make([]byte, 500)
				for {
					n, _, err := sb.ReadSCTP(buf)
					if err != nil {
						return
					}
					mu.Lock()
					got = append(got, string(buf[:n]))
					mu.Unlock()
				}
			})
			var ws []*vsched.Thread
			for w := 0; w < 2; w++ {
				w := w
				ws = append(ws, m.Go(fmt.Sprintf("writer%d", w), func() {
					for i := 0; i < 2; i++ {
						d := payload(1, w*10+i, 30+w)
						if n, err := sa.WriteSCTP(d, PayloadTypeWebRTCBinary); err == nil && n == len(d) {
							mu.Lock()
							accepted[string(d)] = true
							mu.Unlock()
						}
						m.S.Yield()
					}
				}))
			}
			var serr error
			sh := m.Go("shutdown", func() {
				ctx, cancel := context.WithTimeout(context.Background(), 30*time.Second)
				defer cancel()
				serr = m.As[0].Shutdown(ctx)
			})
			m.Join(ws...)
			m.WaitUntil("shutdown-done", 40*time.Second, func() bool { return sh.Done })
			m.WaitUntil("reader-done", 5*time.Second, func() bool { return rd.Done })
			if sh.Done && serr == nil {
				mu.Lock()
				seen := map[string]bool{}
				for _, g := range got {
					seen[g] = true
				}
				missing := 0
				for d := range accepted {
					if !seen[d] {
						missing++
					}
				}
				mu.Unlock()
				if missing > 0 {
					m.Failf("api.delivery", "Shutdown returned nil, %d writes had been accepted, but %d of them were never readable at the peer (a concurrent write that failed left a hole in the stream's sequence numbers)", len(accepted), missing)
				}
			}
			m.Observe("accepted=%d got=%d serr=%v", len(accepted), len(got), serr != nil)
			m.CloseBoth()
			(&wconn{w: m.W, id: 0}).Close()
			(&wconn{w: m.W, id: 1}).Close()
			m.S.Join(rd)
		},
		Final: func(m *Sim, x *Exec) { generalVerdicts(m, x, false) },
	}
}
