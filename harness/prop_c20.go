package sctp

import (
	"context"
	"errors"
	"fmt"
	"sort"
	"strings"
	"time"

	"github.com/pion/sctp/internal/vsched"
)

func init() { register("C20", propC20) }

type concSpec struct {
	A, B epCfg
	prog string
	// selects: the instant a select statement of the library fires is a scheduling point
	selects bool
	// yield: the release of a lock is a scheduling point too (preemption between a critical
	// section and the unlocked code that follows it)
	yield bool
}

// concScenario runs a small concurrent API program after the handshake; every schedule with
// at most D deviations from the canonical one is explored by the caller.
func concScenario(spec *concSpec) *Scenario {
	return &Scenario{
		Name:    "concurrent",
		Horizon: 120 * time.Second,
		Setup:   func(m *Sim) { m.S.SuspendTimers = true },
		Body: func(m *Sim) {
			if !m.Connect(spec.A, spec.B) {
				m.Failf("connect", "handshake failed: %v %v", m.Err[0], m.Err[1])
				m.closeFailedTransports()
				m.CloseBoth()
				return
			}
			m.S.YieldAfterUnlock = spec.yield
			m.S.YieldAfterSelect = spec.yield || spec.selects
			mu := &m.mu
			a, b := m.As[0], m.As[1]
			open := func(as *Association, sid uint16) *Stream {
				s, err := as.OpenStream(sid, PayloadTypeWebRTCBinary)
				if err != nil {
					return nil
				}
				mu.Lock()
				m.streamsSeen = append(m.streamsSeen, s)
				mu.Unlock()
				return s
			}
			sa1, sa2 := open(a, 1), open(a, 2)
			sb1, sb2 := open(b, 1), open(b, 2)
			wrote := map[string][]string{}
			read := map[string][]string{}
			rerr := map[string]error{}
			var ts []*vsched.Thread
			writer := func(name string, s *Stream, n int, size int) {
				ts = append(ts, m.Go(name, func() {
					for i := 0; i < n; i++ {
						d := payload(s.streamIdentifier, i+100*len(name), size)
						_, err := s.WriteSCTP(d, PayloadTypeWebRTCBinary)
						if err != nil {
							m.Logf(name, "write %d err=%v", i, err)
							return
						}
						mu.Lock()
						wrote[name] = append(wrote[name], string(d))
						mu.Unlock()
						m.S.Yield()
					}
				}))
			}
			reader := func(name string, s *Stream) {
				ts = append(ts, m.Go(name, func() {
					buf := make([]byte, 4000)
					for {
						n, _, err := s.ReadSCTP(buf)
						if err != nil {
							mu.Lock()
							rerr[name] = err
							mu.Unlock()
							return
						}
						mu.Lock()
						read[name] = append(read[name], string(buf[:n]))
						mu.Unlock()
					}
				}))
			}
			callbacks := 0
			prog := spec.prog
			has := func(x string) bool { return strings.Contains(prog, x) }
			if has("W1m") {
				// more than a congestion window of data: a chunk queued behind something else
				// is not necessarily sent in the same round
				writer("W1", sa1, 8, 300)
			} else if has("W1b") {
				// blocking-write mode, nobody reads: the writer ends up waiting for the window
				writer("W1", sa1, 6, 500)
			} else if has("W1") {
				writer("W1", sa1, 2, 150)
			}
			if has("W2") {
				writer("W2", sa2, 2, 300)
			}
			if has("Wxb") {
				// further blocking writers on other streams (writers of one stream serialise on
				// the stream; a teardown has to release every one of them)
				writer("Wxb", sa2, 6, 500)
			}
			if has("Wyb") {
				writer("Wyb", open(a, 3), 6, 500)
			}
			if has("Wzb") {
				writer("Wzb", open(a, 4), 6, 500)
			}
			if has("Wb") {
				writer("Wb", sb1, 2, 120)
			}
			if has("R1") {
				reader("R1", sb1)
			}
			if has("R1x") {
				reader("R1x", sb1)
			}
			if has("R2") {
				reader("R2", sb2)
			}
			if has("Ra") {
				reader("Ra", sa1)
			}
			if has("Q") {
				ts = append(ts, m.Go("Q", func() {
					sa1.OnBufferedAmountLow(func() {
						if held := m.S.HeldClasses(); len(held) > 0 {
							m.Failf("callback.locks", "OnBufferedAmountLow invoked with internal locks held: %v", held)
						}
						_ = sa1.BufferedAmount()
						mu.Lock()
						callbacks++
						mu.Unlock()
					})
					sa1.SetBufferedAmountLowThreshold(100)
					_ = sa1.BufferedAmount()
					_ = a.BufferedAmount()
					sa1.SetReliabilityParams(false, ReliabilityTypeReliable, 0)
					_ = sa1.BufferedAmountLowThreshold()
					_, _ = a.Metadata()
					_ = sa1.State()
					sa1.SetBufferedAmountLowThreshold(0)
				}))
			}
			if has("D") {
				ts = append(ts, m.Go("D", func() {
					_ = sb1.SetReadDeadline(time.Now().Add(30 * time.Millisecond))
					m.S.Yield()
					_ = sb1.SetReadDeadline(time.Time{})
					m.S.Yield()
					_ = sb1.SetReadDeadline(time.Now().Add(5 * time.Second))
				}))
			}
			if has("De") {
				// a deadline is armed while nobody reads; the stream ends (reset / abort / close)
				// before it expires; the application then reads like any deadline-aware loop
				ts = append(ts, m.Go("De", func() {
					_ = sb1.SetReadDeadline(time.Now().Add(200 * time.Millisecond))
					m.Sleep(400 * time.Millisecond)
					buf := make([]byte, 4000)
					for {
						n, _, err := sb1.ReadSCTP(buf)
						if err == nil {
							mu.Lock()
							read["R1"] = append(read["R1"], string(buf[:n]))
							mu.Unlock()
							continue
						}
						if errors.Is(err, ErrReadDeadlineExceeded) {
							_ = sb1.SetReadDeadline(time.Time{})
							continue
						}
						mu.Lock()
						rerr["De"] = err
						mu.Unlock()
						return
					}
				}))
			}
			// with a blocking writer the teardown call becomes runnable once four writes have
			// returned: the fifth one finds the previous write still pending and has to wait
			gate := func() {
				if has("W1b") {
					m.WaitUntil("writer-waits", 30*time.Second, func() bool {
						mu.Lock()
						defer mu.Unlock()
						return len(wrote["W1"])+len(wrote["Wxb"])+len(wrote["Wyb"])+len(wrote["Wzb"]) >= 4
					})
				}
			}
			teardown := ""
			if has("Xs") {
				ts = append(ts, m.Go("Xs", func() { gate(); _ = sa1.Close() }))
			}
			if has("Xh") {
				teardown = "shutdown"
				ts = append(ts, m.Go("Xh", func() {
					gate()
					ctx, cancel := context.WithTimeout(context.Background(), 60*time.Second)
					defer cancel()
					_ = a.Shutdown(ctx)
				}))
			}
			if has("Xhb") {
				ts = append(ts, m.Go("Xhb", func() {
					ctx, cancel := context.WithTimeout(context.Background(), 60*time.Second)
					defer cancel()
					_ = b.Shutdown(ctx)
				}))
			}
			if has("Xc") {
				teardown = "close"
				ts = append(ts, m.Go("Xc", func() { gate(); _ = a.Close() }))
			}
			if has("Xcb") {
				teardown = "close"
				ts = append(ts, m.Go("Xcb", func() { _ = b.Close() }))
			}
			if has("Xa") {
				teardown = "abort"
				ts = append(ts, m.Go("Xa", func() { gate(); a.Abort("concurrent abort") }))
			}
			// wait for writers and one-shot threads; readers end at teardown
			var nonReaders, readers []*vsched.Thread
			for _, t := range ts {
				if strings.HasPrefix(t.Name, "R") {
					readers = append(readers, t)
				} else {
					nonReaders = append(nonReaders, t)
				}
			}
			okW := m.WaitUntil("workers-done", 70*time.Second, func() bool {
				for _, t := range nonReaders {
					if !t.Done {
						return false
					}
				}
				return true
			})
			if !okW {
				var stuck []string
				for _, t := range nonReaders {
					if !t.Done {
						stuck = append(stuck, t.Name)
					}
				}
				m.Failf("stuck-call", "calls did not return within 70 s: %v", stuck)
			}
			if teardown == "" {
				// everything accepted must arrive
				m.WaitUntil("drain", 30*time.Second, func() bool {
					if !drained(a) || !drained(b) || !m.W.idle() {
						return false
					}
					for w, r := range map[string]string{"W1": "R1", "W2": "R2", "Wb": "Ra"} {
						if has(w) && (has(r) || (r == "R1" && has("De"))) && len(read[r])+len(read[r+"x"]) < len(wrote[w]) {
							return false
						}
					}
					return true
				})
				// ... and then nothing is counted as buffered any more (a write refused because
				// its stream was closed under it has no effect on the figures)
				m.S.WaitIdle()
				if drained(a) && drained(b) {
					for _, s := range []*Stream{sa1, sa2, sb1} {
						if s != nil {
							if v := s.BufferedAmount(); v != 0 {
								m.Failf("buffered.zero", "program %s: stream %d reports %d buffered bytes although nothing is pending or in flight", prog, s.streamIdentifier, v)
							}
						}
					}
				}
			} else {
				m.Sleep(500 * time.Millisecond)
			}
			m.CloseBoth()
			(&wconn{w: m.W, id: 0}).Close()
			(&wconn{w: m.W, id: 1}).Close()
			okR := m.WaitUntil("readers-done", 5*time.Second, func() bool {
				for _, t := range readers {
					if !t.Done {
						return false
					}
				}
				return true
			})
			if !okR {
				var stuck []string
				for _, t := range readers {
					if !t.Done {
						stuck = append(stuck, t.Name)
					}
				}
				m.Failf("stuck-call", "readers still blocked 5 s after both associations and transports were closed: %v", stuck)
			}
			// delivery: per pair, what was read is a duplicate-free prefix-ordered subsequence of what was written;
			// without teardown and stream close it is everything
			for w, r := range map[string]string{"W1": "R1", "W2": "R2", "Wb": "Ra"} {
				if !has(w) || !has(r) {
					continue
				}
				got := append(append([]string(nil), read[r]...), read[r+"x"]...)
				want := wrote[w]
				// (a write that returned success while the stream was being closed concurrently was
				// accepted before the close: it is delivered ahead of the end-of-stream)
				if teardown == "" {
					if len(got) != len(want) {
						m.Failf("delivery", "program %s: %s delivered %d of %d accepted messages", prog, w, len(got), len(want))
						continue
					}
				}
				// each read message is one of the written ones, at most once
				left := map[string]int{}
				for _, x := range want {
					left[x]++
				}
				for _, g := range got {
					left[g]--
					if left[g] < 0 {
						m.Failf("delivery", "program %s: a message was delivered twice or was never written", prog)
						break
					}
				}
				if !has("R1x") || r != "R1" {
					// single reader: order preserved
					idx := 0
					for _, g := range read[r] {
						for idx < len(want) && want[idx] != g {
							idx++
						}
						if idx == len(want) {
							m.Failf("delivery", "program %s: %s read messages out of order", prog, r)
							break
						}
						idx++
					}
				}
			}
			m.Observe("prog=%s read=%d/%d/%d cb=%d", prog, len(read["R1"]), len(read["R2"]), len(read["Ra"]), callbacks)
		},
		Final: func(m *Sim, x *Exec) {
			generalVerdicts(m, x, true)
			if len(x.ArmedTimers) > 0 {
				m.Failf("timer-leak", "timers still armed after teardown: %v", x.ArmedTimers)
			}
			for _, r := range x.Out.Recursive {
				m.Failf("lock.recursive-rlock", "a goroutine read-locked %s while already holding it (deadlocks if a writer arrives in between)", r)
			}
		},
	}
}

// lockCycle looks for a cycle in the accumulated lock-order graph (classes, not instances).
func lockCycle(edges map[string]bool) []string {
	g := map[string][]string{}
	for e := range edges {
		ab := strings.SplitN(e, "<", 2)
		if len(ab) != 2 || ab[0] == ab[1] {
			continue
		}
		a := strings.TrimPrefix(ab[0], "r:")
		b := strings.TrimPrefix(ab[1], "r:")
		if a == b {
			continue
		}
		g[a] = append(g[a], b)
	}
	var nodes []string
	for n := range g {
		nodes = append(nodes, n)
		sort.Strings(g[n])
	}
	sort.Strings(nodes)
	color := map[string]int{}
	var stack []string
	var found []string
	var dfs func(n string) bool
	dfs = func(n string) bool {
		color[n] = 1
		stack = append(stack, n)
		for _, nx := range g[n] {
			if color[nx] == 1 {
				i := 0
				for k, s := range stack {
					if s == nx {
						i = k
					}
				}
				found = append(append([]string(nil), stack[i:]...), nx)
				return true
			}
			if color[nx] == 0 && dfs(nx) {
				return true
			}
		}
		stack = stack[:len(stack)-1]
		color[n] = 2
		return false
	}
	for _, n := range nodes {
		if color[n] == 0 && dfs(n) {
			return found
		}
	}
	return nil
}

func propC20(j *Job) {
	progs := []string{
		"W1 W2 R1 R2", "W1 Q R1", "W1 R1 Xs", "W1 R1 Xh", "W1 R1 Xc", "W1 R1 Xa", "R1 R1x W1 Xcb", "W1 R1 D", "W1 Wb R1 Ra",
		"Xc Xcb W1", "Xa Xc R1", "Xh Xhb W1 Wb R1 Ra", "W1 Q Xs R1", "R1 R1x Xa", "W1 Xs De", "W1 Xa De", "Xcb De", "W1m R1 Xs",
	}
	modes := stdModes()
	// callbacks of two / three streams drained by one SACK, each taking the next stream's handler
	// away: a handler is read where it is decided that it is called, not later
	for _, n := range []int{2, 3} {
		mode := modes[0]
		j.Explore(fmt.Sprintf("XU/%s/streams%d", mode.Name, n), crossStreamScenario(withBase(mode.A, 1191, 9, 4000), withBase(mode.B, 1191, 99, 4000), n, true), Budget{D: map[bool]int{false: 0, true: 1}[j.Thorough()]}, nil)
	}
	for mi, mode := range modes {
		if mi == 2 && !j.Thorough() {
			continue
		}
		for pi, prog := range progs {
			a := withBase(mode.A, 228, 0xFFFFFFFE, 4000)
			b := withBase(mode.B, 228, 0xFFFFFFF0, 4000)
			d := 1
			if j.Thorough() {
				d = 2
			}
			_ = pi
			if !j.Thorough() && mi == 1 && pi%2 == 1 {
				continue
			}
			j.Explore(fmt.Sprintf("C/%s/%s", mode.Name, strings.ReplaceAll(prog, " ", "+")), concScenario(&concSpec{A: a, B: b, prog: prog}), Budget{D: d}, nil)
			if j.capped() {
				break
			}
		}
	}
	// OpenStream in the instant the reader sees end-of-stream, against the read loop that is
	// performing the reset (scenario of C14), and a teardown against a blocking write made from the
	// low-threshold callback (scenario of C09)
	{
		mode := modes[0]
		P := int(maxPayloadSizeForMTU(100, !mode.A.NoInterleave))
		sp := &resetSpec{A: withBase(mode.A, 100, 0xFFFFFFFA, 4000), B: withBase(mode.B, 100, 0xFFFFFFF0, 4000),
			SIDs: []uint16{5}, Sizes: []int{9}, Cycles: 3, SSNStart: 65534, MIDStart: 0xFFFFFFFE, BackSizes: []int{12}, ReopenAtEOF: true}
		_ = P
		j.Explore(fmt.Sprintf("RE/%s/reopen-at-eof", mode.Name), resetScenario(sp), Budget{D: 1}, nil)
		a, b := withBase(mode.A, 228, 9, 4000), withBase(mode.B, 228, 99, 4000)
		a.BlockWrite = true
		for _, x := range []string{"closeA", "abortA"} {
			j.Explore(fmt.Sprintf("CW/%s/%s", mode.Name, x), callbackWriterScenario(a, b, x), Budget{}, nil)
		}
	}
	// a writer blocked in blocking-write mode (peer window closed) against concurrent teardown,
	// with lock releases as additional preemption points
	for mi, mode := range modes {
		if mi > 0 && !j.Thorough() {
			break
		}
		for _, prog := range []string{"W1b Xh", "W1b Xc", "W1b Xa", "W1b Wxb Wyb Wzb Xc", "W1b Wxb Wyb Wzb Xa", "W1b Wxb Wyb Wzb Xh"} {
			a := withBase(mode.A, 228, 0xFFFFFFFE, 4000)
			a.BlockWrite = true
			b := withBase(mode.B, 228, 0xFFFFFFF0, 4000)
			b.RecvBuf = 1500
			d := 1
			if strings.Contains(prog, "Wzb") && !j.Thorough() {
				d = 0
			}
			j.Explore(fmt.Sprintf("CB/%s/%s", mode.Name, strings.ReplaceAll(prog, " ", "+")), concScenario(&concSpec{A: a, B: b, prog: prog, yield: true}), Budget{D: d}, nil)
			if j.capped() {
				break
			}
		}
	}
	// the same teardown programs with the library's select wake-ups as scheduling points (a
	// goroutine woken by a channel can be overtaken before it looks at the state it was woken for)
	for mi, mode := range modes {
		if mi > 0 && !j.Thorough() {
			break
		}
		for _, prog := range []string{"W1 R1 Xh", "W1 R1 Xa", "W1 R1 Xc", "Xh Xhb W1 Wb R1 Ra", "W1b Xh", "W1b Xa"} {
			a := withBase(mode.A, 228, 0xFFFFFFFE, 4000)
			b := withBase(mode.B, 228, 0xFFFFFFF0, 4000)
			if strings.Contains(prog, "W1b") {
				a.BlockWrite = true
				b.RecvBuf = 1500
			}
			j.Explore(fmt.Sprintf("CS/%s/%s", mode.Name, strings.ReplaceAll(prog, " ", "+")), concScenario(&concSpec{A: a, B: b, prog: prog, selects: true}), Budget{D: map[bool]int{false: 1, true: 2}[j.Thorough()]}, nil)
			if j.capped() {
				break
			}
		}
	}
	// callbacks of a stream the peer has reset (it is no longer in the association's table) are
	// entered without internal locks like those of any other stream
	for _, mode := range modes {
		j.Explore(fmt.Sprintf("RL/%s", mode.Name), peerResetReleaseScenario(withBase(mode.A, 228, 9, 4000), withBase(mode.B, 228, 99, 4000)), Budget{D: 1}, nil)
	}
	// several goroutines each read one message from the same stream; a retransmission fills a
	// gap and makes as many messages readable at once as there are readers
	for _, mode := range modes {
		for _, n := range []int{2, 3} {
			j.Explore(fmt.Sprintf("RG/%s/readers%d", mode.Name, n), readersGapScenario(withBase(mode.A, 228, 0xFFFFFFFE, 4000), withBase(mode.B, 228, 0xFFFFFFF0, 4000), n), Budget{D: 1}, nil)
			if j.capped() {
				break
			}
		}
	}
	if cyc := lockCycle(j.Stats.LockOrder); cyc != nil {
		j.failSeq("lock-order", "lock-order-graph", fmt.Sprintf("the lock acquisition orders observed over all explored executions form a cycle: %s (a potential deadlock even if no explored schedule closed it)", strings.Join(cyc, " -> ")), nil)
	}
	var edges []string
	for e := range j.Stats.LockOrder {
		edges = append(edges, e)
	}
	sort.Strings(edges)
	j.extra("lock_order_edges", strings.Join(edges, ", "))
}

// readersGapScenario: n goroutines are blocked in ReadSCTP on one stream, each wants exactly one
// message.  A writes n messages in separate packets; the first transmission of the first one is
// lost, so the others wait in the reassembly queue and the retransmission makes all n readable
// in one step.  Every reader gets its message.
// (skip: the lost first message is not repaired but abandoned - retransmission limit 0 - and
// the messages queued behind it are released by the skip report instead)
func readersGapScenario(a, b epCfg, nReaders int, skip ...bool) *Scenario {
	return &Scenario{
		Name:    "readers-gap",
		Horizon: 120 * time.Second,
		Setup: func(m *Sim) {
			killed := false
			m.W.killFn = func(p *wpkt) bool {
				if killed || p.from != 0 || p.dec == nil {
					return false
				}
				for _, c := range p.dec.Chunks {
					if (c.Typ == wDATA || c.Typ == wIDATA) && len(c.Data) > 0 {
						killed = true
						return true
					}
				}
				return false
			}
		},
		Body: func(m *Sim) {
			if !m.Connect(a, b) {
				m.Failf("connect", "handshake failed")
				m.closeFailedTransports()
				m.CloseBoth()
				return
			}
			sa, _ := m.As[0].OpenStream(1, PayloadTypeWebRTCBinary)
			sb, _ := m.As[1].OpenStream(1, PayloadTypeWebRTCBinary)
			m.streamsSeen = append(m.streamsSeen, sa, sb)
			got := map[string]string{}
			var ts []*vsched.Thread
			for i := 0; i < nReaders; i++ {
				name := fmt.Sprintf("rd%d", i)
				ts = append(ts, m.Go(name, func() {
					buf := make([]byte, 400)
					n, _, err := sb.ReadSCTP(buf)
					if err != nil {
						return
					}
					m.mu.Lock()
					got[name] = string(buf[:n])
					m.mu.Unlock()
				}))
			}
			m.S.WaitIdle()
			nw := nReaders
			if len(skip) > 0 && skip[0] {
				sa.SetReliabilityParams(false, ReliabilityTypeRexmit, 0)
				nw++
			}
			for i := 0; i < nw; i++ {
				if _, err := sa.WriteSCTP(payload(1, i, 150+i), PayloadTypeWebRTCBinary); err != nil {
					m.Failf("write", "write %d: %v", i, err)
				}
				m.Sleep(5 * time.Millisecond)
			}
			ok := m.WaitUntil("readers-back", 20*time.Second, func() bool {
				for _, t := range ts {
					if !t.Done {
						return false
					}
				}
				return true
			})
			if !ok {
				readable := sb.reassemblyQueue.isReadable()
				m.mu.Lock()
				n := len(got)
				m.mu.Unlock()
				m.Failf("read.lost-wakeup", "%d readers blocked on one stream, %d messages delivered to the stream: only %d readers returned within 20 s (a message is readable: %v)", nReaders, nReaders, n, readable)
			}
			m.Observe("back=%d", len(got))
			m.CloseBoth()
			m.Join(ts...)
		},
		Final: func(m *Sim, x *Exec) { generalVerdicts(m, x, true) },
	}
}
