package sctp

import (
	"strings"
	"context"
	"errors"
	"fmt"
	"time"
)

func init() { register("C04", propC04) }

type hsSpec struct {
	A, B          epCfg
	SNAP          bool
	// SnapTok: the out-of-band tokens are generated with these configurations instead of A / B
	// (an application that builds its token once and creates the association with other
	// options): what the peer was told in the token is what counts
	SnapTok *[2]epCfg
	DelayA        time.Duration // start delay of each side
	DelayB        time.Duration
	Faults        faultSet
	Stale         bool // re-inject recorded handshake packets after establishment
	SilentPeer    int  // 0 no, 1 peer never answers, 2 only COOKIE-ACKs are lost
	CloseServerAt int  // >0: close the server's transport after that many wire events
}

// probe sends one message each way on stream sid and checks delivery.
func (m *Sim) probe(oracle string, sid uint16, tag int) bool {
	sa, err := m.As[0].OpenStream(sid, PayloadTypeWebRTCBinary)
	if err != nil {
		m.Failf(oracle, "OpenStream(%d) on A: %v", sid, err)
		return false
	}
	m.streamsSeen = append(m.streamsSeen, sa)
	msg := payload(sid, tag, 40)
	if _, err := sa.WriteSCTP(msg, PayloadTypeWebRTCBinary); err != nil {
		m.Failf(oracle, "write on A: %v", err)
		return false
	}
	sb, err := m.As[1].AcceptStream()
	if err != nil {
		m.Failf(oracle, "AcceptStream on B: %v", err)
		return false
	}
	m.streamsSeen = append(m.streamsSeen, sb)
	buf := make([]byte, 1000)
	n, ppi, err := sb.ReadSCTP(buf)
	if err != nil || string(buf[:n]) != string(msg) || ppi != PayloadTypeWebRTCBinary {
		m.Failf(oracle, "B read n=%d ppi=%d err=%v, want the %d-byte probe", n, ppi, err, len(msg))
		return false
	}
	back := payload(sid, tag+1, 33)
	if _, err := sb.WriteSCTP(back, PayloadTypeWebRTCString); err != nil {
		m.Failf(oracle, "write on B: %v", err)
		return false
	}
	n, ppi, err = sa.ReadSCTP(buf)
	if err != nil || string(buf[:n]) != string(back) || ppi != PayloadTypeWebRTCString {
		m.Failf(oracle, "A read n=%d ppi=%d err=%v, want the %d-byte reply", n, ppi, err, len(back))
		return false
	}
	return true
}

// probeAgain reuses already open streams.
func (m *Sim) probeStreams(oracle string, sa, sb *Stream, tag int) bool {
	buf := make([]byte, 1000)
	msg := payload(sa.streamIdentifier, tag, 21)
	if _, err := sa.WriteSCTP(msg, PayloadTypeWebRTCBinary); err != nil {
		m.Failf(oracle, "write on A: %v", err)
		return false
	}
	n, _, err := sb.ReadSCTP(buf)
	if err != nil || string(buf[:n]) != string(msg) {
		m.Failf(oracle, "B read n=%d err=%v", n, err)
		return false
	}
	back := payload(sa.streamIdentifier, tag+1, 22)
	if _, err := sb.WriteSCTP(back, PayloadTypeWebRTCBinary); err != nil {
		m.Failf(oracle, "write on B: %v", err)
		return false
	}
	n, _, err = sa.ReadSCTP(buf)
	if err != nil || string(buf[:n]) != string(back) {
		m.Failf(oracle, "A read n=%d err=%v", n, err)
		return false
	}
	return true
}

func checkMetadata(m *Sim, ca, cb epCfg) {
	cfg := [2]epCfg{ca, cb}
	for i := 0; i < 2; i++ {
		md, ok := m.As[i].Metadata()
		if !ok {
			m.Failf("metadata", "endpoint %d: Metadata() not available after a successful connect", i)
			continue
		}
		wantIL := !cfg[0].NoInterleave && !cfg[1].NoInterleave
		if md.MessageInterleavingEnabled != wantIL {
			m.Failf("negotiation.interleaving", "endpoint %d: interleaving=%v, want %v (A enabled=%v, B enabled=%v)", i, md.MessageInterleavingEnabled, wantIL, !cfg[0].NoInterleave, !cfg[1].NoInterleave)
		}
		wantPR := PartialReliabilityModeForwardTSN
		if wantIL {
			wantPR = PartialReliabilityModeIForwardTSN
		}
		if md.PartialReliabilityMode != wantPR {
			m.Failf("negotiation.forwardtsn", "endpoint %d: partial reliability mode %d, want %d", i, md.PartialReliabilityMode, wantPR)
		}
		if md.ZeroChecksumSendingEnabled != cfg[1-i].ZeroChecksum {
			m.Failf("negotiation.zerochecksum", "endpoint %d: sends zero checksum=%v but peer accepts=%v", i, md.ZeroChecksumSendingEnabled, cfg[1-i].ZeroChecksum)
		}
		if md.ZeroChecksumReceivingEnabled != cfg[i].ZeroChecksum {
			m.Failf("negotiation.zerochecksum", "endpoint %d: accepts zero checksum=%v but was configured %v", i, md.ZeroChecksumReceivingEnabled, cfg[i].ZeroChecksum)
		}
	}
}

func hsScenario(spec *hsSpec) *Scenario {
	return &Scenario{
		Name:    "handshake",
		Horizon: 400 * time.Second,
		Setup: func(m *Sim) {
			m.W.faults = spec.Faults
			m.W.faultsOn = true
			m.W.lateBy = 1300 * time.Millisecond
			m.W.onQuiescent = m.invariantsAll
			switch spec.SilentPeer {
			case 1:
				m.W.blackhole[0] = true
			case 3:
				// the first COOKIE-ACK arrives only after the client has given up; the rest are lost
				n := 0
				isCA := func(p *wpkt) bool {
					return p.dec != nil && len(p.dec.Chunks) > 0 && p.dec.Chunks[0].Typ == wCOOKIEACK
				}
				m.W.killFn = func(p *wpkt) bool {
					if isCA(p) {
						n++
						return n > 1
					}
					return false
				}
				m.W.delayFn = func(p *wpkt) time.Duration {
					if isCA(p) && n == 1 {
						return 45 * time.Second
					}
					return 0
				}
			case 2:
				m.W.killFn = func(p *wpkt) bool {
					if p.dec == nil {
						return false
					}
					for _, c := range p.dec.Chunks {
						if c.Typ == wCOOKIEACK {
							return true
						}
					}
					return false
				}
			}
		},
		Body: func(m *Sim) {
			if spec.SNAP && spec.SnapTok != nil {
				m.snapConnect(spec.A, spec.B, spec.SnapTok[0], spec.SnapTok[1])
			} else if spec.SNAP {
				m.snapConnect(spec.A, spec.B)
			} else {
				ta := m.Go("connA", func() {
					if spec.DelayA > 0 {
						m.Sleep(spec.DelayA)
					}
					m.Dial(0, spec.A)
				})
				tb := m.Go("connB", func() {
					if spec.SilentPeer == 1 {
						return // the peer does not exist
					}
					if spec.DelayB > 0 {
						m.Sleep(spec.DelayB)
					}
					m.Dial(1, spec.B)
				})
				if spec.CloseServerAt > 0 {
					m.WaitUntil("crashpoint", 100*time.Second, func() bool { return len(m.W.events) >= spec.CloseServerAt })
					t0 := m.S.Now()
					(&wconn{w: m.W, id: 1}).Close()
					m.S.Join(tb)
					if d := m.S.Now() - t0; d != 0 {
						m.Failf("server.closed-transport", "server-side connect returned %v after its transport was closed (want the same instant)", d)
					}
					if m.Err[1] == nil {
						// already established before the close: fine
						m.Observe("server established before close")
					}
					m.S.Join(ta)
					m.closeFailedTransports()
					m.CloseBoth()
					return
				}
				m.S.Join(ta)
				m.S.Join(tb)
			}
			m.Observe("errA=%v errB=%v", m.Err[0], m.Err[1])
			if spec.SilentPeer == 3 {
				// let the stale COOKIE-ACK arrive at the client whose connect call already failed
				m.Sleep(60 * time.Second)
			}
			if spec.SilentPeer != 0 {
				// a failed connect leaves the transport to its owner: close it, everything must stop
				(&wconn{w: m.W, id: 0}).Close()
				m.CloseBoth()
				return
			}
			if m.Err[0] != nil || m.Err[1] != nil {
				m.closeFailedTransports()
				m.Failf("connect", "connect failed although every packet had retransmissions left: A=%v B=%v", m.Err[0], m.Err[1])
				m.CloseBoth()
				return
			}
			m.W.faultsOn = false
			if spec.SnapTok != nil {
				// interleaving is what the tokens offered; the zero-checksum expectations stay with A / B
				ta, tb := spec.A, spec.B
				ta.NoInterleave, tb.NoInterleave = spec.SnapTok[0].NoInterleave, spec.SnapTok[1].NoInterleave
				checkMetadata(m, ta, tb)
			} else {
				checkMetadata(m, spec.A, spec.B)
			}
			if m.probe("probe", 1, 0) {
				// let every handshake timer that might have been left armed run out, then probe again
				sa, sb := m.streamsSeen[0], m.streamsSeen[1]
				m.Sleep(40 * time.Second)
				for e := 0; e < 2; e++ {
					if st := m.As[e].getState(); st != established {
						m.Failf("idle.state", "endpoint %d left established (state %s) while idle after the handshake", e, getAssociationStateString(st))
					}
				}
				m.probeStreams("idle.probe", sa, sb, 4)
			}
			// a T1 expiry that was already on its way when the handshake completed (it lost the race
			// for the association lock against the packet that completed it) is delivered late: it
			// must not disturb the established association
			// (associations set up from tokens never start T1)
			if len(m.viol) == 0 && len(m.streamsSeen) >= 2 && !spec.SNAP {
				for e := 0; e < 2; e++ {
					a := m.As[e]
					lt := m.Go(fmt.Sprintf("late-t1.%d", e), func() {
						a.onRetransmissionFailure(timerT1Init)
						a.onRetransmissionFailure(timerT1Cookie)
					})
					if !m.WaitUntil("late-t1", 2*time.Second, func() bool { return lt.Done }) {
						m.Failf("handshake.late-timer", "endpoint %d: a T1 failure callback delivered after the association was established never returns (and holds the association lock)", e)
					}
				}
				if len(m.viol) == 0 {
					m.probeStreams("handshake.late-timer", m.streamsSeen[0], m.streamsSeen[1], 90)
				}
			}
			if len(m.viol) == 0 && spec.Stale {
				sa, sb := m.streamsSeen[0], m.streamsSeen[1]
				// replay every handshake packet seen so far into its original destination
				var hs []*wpkt
				for _, ev := range m.W.events {
					if ev.Kind != "send" || ev.Pkt.dec == nil || len(ev.Pkt.dec.Chunks) == 0 {
						continue
					}
					switch ev.Pkt.dec.Chunks[0].Typ {
					case wINIT, wINITACK, wCOOKIEECHO, wCOOKIEACK:
						hs = append(hs, ev.Pkt)
					}
				}
				for i, p := range hs {
					nEv := len(m.W.events)
					m.W.inject(1-p.from, p.data)
					m.WaitUntil("stale-settle", 3*time.Second, func() bool { return m.W.idle() && len(m.W.ep[0].inbox) == 0 && len(m.W.ep[1].inbox) == 0 })
					for _, ev := range m.W.events[nEv:] {
						if ev.Kind == "send" && ev.Pkt.dec != nil {
							for _, c := range ev.Pkt.dec.Chunks {
								if c.Typ == wABORT {
									m.Failf("stale.abort", "a stale %s made endpoint %d send ABORT", p.dec.Summary(), ev.From)
								}
							}
						}
					}
					for e := 0; e < 2; e++ {
						if st := m.As[e].getState(); st != established {
							m.Failf("stale.state", "after a stale %s endpoint %d is in state %s", p.dec.Summary(), e, getAssociationStateString(st))
						}
					}
					if !m.probeStreams("stale.probe", sa, sb, 10+2*i) {
						break
					}
					// ... and the probes are acknowledged: nothing stays buffered on either side
					if !m.WaitUntil("stale-drained", 30*time.Second, func() bool { return drained(m.As[0]) && drained(m.As[1]) }) {
						m.Failf("stale.stall", "after a stale %s the probe messages were delivered but never acknowledged: buffered A=%d B=%d", p.dec.Summary(), bufAmt(m.As[0]), bufAmt(m.As[1]))
						break
					}
				}
				checkMetadata(m, spec.A, spec.B)
				// the same stale packets arrive while endpoint 0 is shutting down: the shutdown
				// still completes (a handshake packet must not revive the association)
				if len(m.viol) == 0 {
					var serr error
					done := false
					sh := m.Go("shutdown0", func() {
						ctx, cancel := context.WithTimeout(context.Background(), 60*time.Second)
						defer cancel()
						serr = m.As[0].Shutdown(ctx)
						done = true
					})
					m.WaitUntil("shutdown-begun", 5*time.Second, func() bool { return m.As[0].getState() != established })
					for _, p := range hs {
						if p.from == 1 {
							m.W.inject(0, p.data)
						}
					}
					m.WaitUntil("shutdown-done", 70*time.Second, func() bool { return done })
					m.S.Join(sh)
					if serr != nil {
						m.Failf("stale.shutdown", "stale handshake packets arriving during Shutdown: Shutdown returned %v (state A=%s B=%s)", serr, getAssociationStateString(m.As[0].getState()), getAssociationStateString(m.As[1].getState()))
					}
				}
			}
			m.CloseBoth()
		},
		Final: func(m *Sim, x *Exec) {
			generalVerdicts(m, x, true)
			o := monOpts{Cksum: true, Kind: true}
			if spec.SNAP {
				o.Snap = true
				o.SnapZC = [2]bool{spec.A.ZeroChecksum, spec.B.ZeroChecksum}
				o.SnapIL = [2]bool{!spec.A.NoInterleave, !spec.B.NoInterleave}
				if spec.SnapTok != nil {
					o.SnapIL = [2]bool{!spec.SnapTok[0].NoInterleave, !spec.SnapTok[1].NoInterleave}
				}
			}
			f := runWireMonitors(m, x, o)
			// an endpoint whose connect call has returned successfully is established: it must
			// not originate handshake packets any more (a handshake timer left armed would)
			for i := 0; i < 2; i++ {
				var okAt time.Duration = -1
				for _, h := range x.Hist {
					if (h.Call == fmt.Sprintf("dial%d", i) || h.Call == fmt.Sprintf("snap%d", i)) && h.Result == "err=<nil>" {
						okAt = h.At
					}
				}
				if okAt < 0 {
					continue
				}
				for _, ev := range x.Events {
					if ev.Kind == "send" && ev.From == i && ev.At > okAt && ev.Pkt.dec != nil && len(ev.Pkt.dec.Chunks) > 0 {
						if t := ev.Pkt.dec.Chunks[0].Typ; t == wINIT || t == wCOOKIEECHO {
							m.Failf("handshake.leftover", "endpoint %d sent %s at %v although its connect call had returned successfully at %v (a handshake timer is still running)", i, wTypeName(t), ev.At, okAt)
							break
						}
					}
				}
			}
			if spec.SilentPeer != 0 {
				// bounded number of handshake transmissions, error reported, bounded time
				want := ErrHandshakeInitAck
				typ := uint8(wINIT)
				if spec.SilentPeer >= 2 {
					want = ErrHandshakeCookieEcho
					typ = wCOOKIEECHO
				}
				if !errors.Is(m.Err[0], want) {
					m.Failf("silent.error", "connect against a silent peer returned %v, want %v", m.Err[0], want)
				}
				n := 0
				var last time.Duration
				for _, ev := range x.Events {
					if ev.Kind == "send" && ev.From == 0 && ev.Pkt.dec != nil && len(ev.Pkt.dec.Chunks) > 0 && ev.Pkt.dec.Chunks[0].Typ == typ {
						n++
						last = ev.At
					}
				}
				if n != 1+int(maxInitRetrans) {
					m.Failf("silent.retries", "%d transmissions of %s, want %d", n, wTypeName(typ), 1+maxInitRetrans)
				}
				rtoMax := spec.A.RTOMax
				if rtoMax == 0 {
					rtoMax = defaultRTOMax
				}
				bound := time.Duration(float64(maxInitRetrans+1)*rtoMax) * time.Millisecond
				for _, h := range x.Hist {
					if h.Call == "dial0" && h.At > bound+time.Second {
						m.Failf("silent.time", "connect returned after %v (> %v)", h.At, bound)
					}
				}
				_ = last
			}
			_ = f
		},
	}
}

// closeFailedTransports closes the transport of every endpoint whose connect failed (the
// association object is not returned in that case, so its owner can only close the conn).
func (m *Sim) closeFailedTransports() {
	for i := 0; i < 2; i++ {
		if m.As[i] == nil {
			(&wconn{w: m.W, id: i}).Close()
		}
	}
}

// snapConnect establishes both sides from exchanged out-of-band tokens.
func (m *Sim) snapConnect(ca, cb epCfg, tokCfg ...epCfg) {
	cfg := [2]epCfg{ca, cb}
	tcfg := cfg
	if len(tokCfg) == 2 {
		tcfg = [2]epCfg{tokCfg[0], tokCfg[1]}
	}
	var tok [2][]byte
	for i := 0; i < 2; i++ {
		tag := cfg[i].Tag
		if tag == 0 {
			tag = 0x1000 + uint32(i)
		}
		m.Rand.push(cfg[i].InitTSN, tag)
		var co []ClientOption
		for _, o := range m.options(i, tcfg[i]) {
			co = append(co, o.(ClientOption))
		}
		t, err := GenerateOutOfBandToken(co...)
		if err != nil {
			m.Failf("snap.token", "GenerateOutOfBandToken: %v", err)
			return
		}
		tok[i] = t
	}
	for i := 0; i < 2; i++ {
		m.Cfg[i] = cfg[i]
		var co []ClientOption
		for _, o := range m.options(i, cfg[i]) {
			co = append(co, o.(ClientOption))
		}
		co = append(co, WithSNAP(tok[i], tok[1-i]))
		m.Rand.push(0x5000+uint32(i), 0x6000+uint32(i))
		a, err := ClientWithOptions(co...)
		m.As[i], m.Err[i] = a, err
		m.Logf(fmt.Sprintf("snap%d", i), "err=%v", err)
	}
}

func propC04(j *Job) {
	for _, il := range []bool{false, true} {
		j.Explore(fmt.Sprintf("LT/il%v", il), lateT1InitScenario(epCfg{NoInterleave: !il, MTU: 228, RTOMax: 4000, InitTSN: 0xFFFFFFFD}, epCfg{Server: true, NoInterleave: !il, MTU: 228, RTOMax: 4000, InitTSN: 9}), Budget{}, nil)
		j.Explore(fmt.Sprintf("LT/il%v/during", il), lateT1InitScenario(epCfg{NoInterleave: !il, MTU: 228, RTOMax: 4000, InitTSN: 0xFFFFFFFD}, epCfg{Server: true, NoInterleave: !il, MTU: 228, RTOMax: 4000, InitTSN: 9}, "during"), Budget{}, nil)
	}
	j.Explore("SI/stale-init-ext", staleInitExtScenario(), Budget{}, nil)
	faults := faultSet{Drop: true, Dup: true, Late: true, Swap: true}
	type role struct {
		name string
		aSrv bool
		bSrv bool
		snap bool
	}
	roles := []role{{"cs", false, true, false}, {"cc", false, false, false}, {"snap", false, false, true}}
	orders := []struct {
		name string
		a, b time.Duration
	}{{"same", 0, 0}, {"Afirst", 0, 30 * time.Millisecond}, {"Bfirst", 30 * time.Millisecond, 0}, {"Alate", 1300 * time.Millisecond, 0}}
	for _, r := range roles {
		for opt := 0; opt < 16; opt++ {
			for oi, ord := range orders {
				if r.snap && oi > 0 {
					continue
				}
				a := epCfg{Server: r.aSrv, NoInterleave: opt&1 != 0, ZeroChecksum: opt&2 != 0, RTOMax: 4000, InitTSN: 0xFFFFFFFE, MTU: 228}
				b := epCfg{Server: r.bSrv, NoInterleave: opt&4 != 0, ZeroChecksum: opt&8 != 0, RTOMax: 4000, InitTSN: 5, MTU: 228}
				k := 1
				if (opt == 0 || opt == 6 || opt == 15) && oi < 3 {
					k = 2
				}
				if j.Thorough() {
					k = 2
					if opt == 0 || opt == 6 || opt == 15 {
						k = 3
					}
				}
				if r.snap {
					k = 0
				}
				spec := &hsSpec{A: a, B: b, SNAP: r.snap, DelayA: ord.a, DelayB: ord.b, Faults: faults, Stale: !r.snap}
				j.Explore(fmt.Sprintf("hs/%s/opt%d/%s", r.name, opt, ord.name), hsScenario(spec), Budget{K: k}, nil)
				if j.capped() {
					return
				}
			}
		}
	}
	// silent peer and lost COOKIE-ACKs
	for sp := 1; sp <= 3; sp++ {
		for _, rto := range []float64{4000, 0} {
			if sp == 3 && rto == 0 {
				continue
			}
			spec := &hsSpec{A: epCfg{RTOMax: rto, InitTSN: 77}, B: epCfg{Server: true, RTOMax: rto, InitTSN: 99}, SilentPeer: sp}
			j.Explore(fmt.Sprintf("hs/silent%d/rtomax%v", sp, rto), hsScenario(spec), Budget{}, nil)
		}
	}
	// server-side connect returns as soon as its transport is closed: at every wire event of a handshake
	for at := 1; at <= 9; at++ {
		spec := &hsSpec{A: epCfg{RTOMax: 4000, InitTSN: 7}, B: epCfg{Server: true, RTOMax: 4000, InitTSN: 9}, CloseServerAt: at, Faults: faults}
		k := 0
		if j.Thorough() {
			k = 1
		}
		j.Explore(fmt.Sprintf("hs/close-server/at%d", at), hsScenario(spec), Budget{K: k}, nil)
	}
	// server with no client at all
	spec := &hsSpec{A: epCfg{RTOMax: 4000, InitTSN: 7}, B: epCfg{Server: true, RTOMax: 4000, InitTSN: 9}, CloseServerAt: 1, SilentPeer: 0}
	_ = spec
}

// lateT1InitScenario: the last T1-init expiry decides "handshake failed" under the timer's mutex
// and then has to take the association lock - which the read loop holds, handling the INIT ACK
// that arrived just in time.  When the verdict is applied the association is in COOKIE-ECHOED,
// T1-init has been stopped, and the handshake goes on to succeed on both sides: the connect
// call must not be failed by the stale verdict.  (The client is built from the same pieces as
// ClientWithOptions so that the harness holds the association before the call returns.)
// initAckHook runs a function on the read loop at the start of handleInitAck, i.e. with the
// association lock held and the state still COOKIE-WAIT.
type initAckHook struct {
	nopLogger
	f func()
}

func (l *initAckHook) Debugf(f string, _ ...any) {
	if strings.Contains(f, "chunkInitAck received") && l.f != nil {
		g := l.f
		l.f = nil
		g()
	}
}

// variant "during": the verdict's callback starts while the read loop is inside the INIT ACK
// handler (lock held, state still COOKIE-WAIT) and gets the lock when the handler is done.
func lateT1InitScenario(a, b epCfg, variant ...string) *Scenario {
	during := len(variant) > 0 && variant[0] == "during"
	return &Scenario{
		Name:    "late-t1-init",
		Horizon: 120 * time.Second,
		Setup: func(m *Sim) {
			m.W.delay = [2]time.Duration{50 * time.Millisecond, 50 * time.Millisecond}
		},
		Body: func(m *Sim) {
			tb := m.Go("connB", func() { m.Dial(1, b) })
			m.Cfg[0] = a
			m.Rand.push(a.InitTSN, 0x1000)
			var co []ClientOption
			for _, o := range m.options(0, a) {
				co = append(co, o.(ClientOption))
			}
			A, err := createClientAssociation(co...)
			if err != nil {
				m.Failf("e1.base", "client association: %v", err)
				return
			}
			m.As[0] = A
			if during {
				A.log = &initAckHook{f: func() {
					m.Go("late-t1-init", func() { A.onRetransmissionFailure(timerT1Init) })
					m.Sleep(time.Millisecond) // the callback starts now and has to wait for the lock this thread holds
				}}
			}
			A.initClient()
			if !m.WaitUntil("cookie-echoed", 10*time.Second, func() bool { return A.getState() == cookieEchoed }) {
				m.Failf("e1.base", "client never reached COOKIE-ECHOED (state %s)", getAssociationStateString(A.getState()))
			}
			// the connect call is waiting for the result all along (the sender blocks without a receiver)
			var hsErr error
			got := false
			if !during {
				m.Go("late-t1-init", func() { A.onRetransmissionFailure(timerT1Init) })
			}
			m.WaitUntil("handshake-result", 20*time.Second, func() bool {
				select {
				case hsErr = <-A.handshakeCompletedCh:
					got = true
				default:
				}
				return got
			})
			m.WaitUntil("server-done", 20*time.Second, func() bool { return tb.Done })
			switch {
			case !got:
				m.Failf("handshake.hang", "no handshake result on the client 20 s after COOKIE-ECHOED")
			case hsErr != nil && m.Err[1] == nil && m.As[1] != nil:
				m.Failf("handshake.late-timer", "a T1-init failure decided before the INIT ACK was handled is applied in COOKIE-ECHOED (T1-init stopped, COOKIE ECHO sent): the connect call fails with %q while the handshake goes on and the peer is established", hsErr)
			}
			m.Observe("client=%v server=%v", hsErr, m.Err[1])
			m.CloseBoth()
			(&wconn{w: m.W, id: 0}).Close()
			(&wconn{w: m.W, id: 1}).Close()
		},
		Final: func(m *Sim, x *Exec) { generalVerdicts(m, x, true) },
	}
}

// staleInitExtScenario: the client (interleaving enabled) waits for the INIT ACK of a peer
// without interleaving when an INIT of an earlier, differently configured incarnation of the
// peer arrives that offers I-DATA and I-FORWARD-TSN.  What the association negotiates follows
// the INIT ACK that its COOKIE ECHO answers: plain DATA, FORWARD-TSN.
func staleInitExtScenario() *Scenario {
	return &Scenario{
		Name:    "stale-init-ext",
		Horizon: 60 * time.Second,
		Setup:   func(m *Sim) { m.W.delay = [2]time.Duration{time.Millisecond, time.Millisecond} },
		Body: func(m *Sim) {
			cfg := epCfg{MTU: 228, RTOMax: 4000, InitTSN: 91}
			p := newScripted(m, cfg, false, false)
			p.dialT = m.Go("dial", func() { m.Dial(0, cfg) })
			out := p.settle(0)
			if len(out) == 0 || out[0].dec == nil || out[0].dec.Chunks[0].Typ != wINIT {
				m.Failf("e2.base", "no INIT")
				c03Teardown(m, p)
				return
			}
			stale := wNewPacket(5000, 5000, 0)
			stale.rawChunk(chunkBytes(wINIT, 0, wInitVal(p.tag+77, p.arwnd, 65535, 65535, p.tsn0+1000, wTLVBytes(0x8008, []byte{130, 192, 64, 194}, false))))
			p.inject(stale.bytes(true))
			cookie := []byte("cookie-cookie-cookie-cookie-1234")
			iack := chunkBytes(wINITACK, 0, wInitVal(p.tag, p.arwnd, 65535, 65535, p.tsn0, wTLVBytes(7, cookie, true), wTLVBytes(0x8008, []byte{130, 192}, false)))
			out = p.inject(p.pkt(iack))
			gotEcho := false
			for _, o := range out {
				if o.dec != nil && o.dec.Chunks[0].Typ == wCOOKIEECHO {
					gotEcho = true
				}
			}
			if !gotEcho {
				m.Failf("e2.base", "no COOKIE-ECHO after the genuine INIT-ACK")
				c03Teardown(m, p)
				return
			}
			p.inject(p.pkt(chunkBytes(wCOOKIEACK, 0, nil)))
			m.S.Join(p.dialT)
			p.a = m.As[0]
			if p.a == nil {
				m.Failf("e2.base", "handshake did not complete: %v", m.Err[0])
				c03Teardown(m, p)
				return
			}
			md, _ := p.a.Metadata()
			if md.MessageInterleavingEnabled || md.PartialReliabilityMode != PartialReliabilityModeForwardTSN {
				m.Failf("negotiation.interleaving", "the peer's INIT ACK offers neither I-DATA nor I-FORWARD-TSN, a stale INIT handled before it did: the client reports interleaving=%v, partial reliability mode %d", md.MessageInterleavingEnabled, md.PartialReliabilityMode)
			}
			s, _ := p.a.OpenStream(2, PayloadTypeWebRTCBinary)
			_, _ = s.WriteSCTP(payload(2, 0, 300), PayloadTypeWebRTCBinary)
			p.settle(0)
			for _, ev := range m.W.events {
				if ev.Kind == "send" && ev.From == 0 && ev.Pkt.dec != nil {
					for _, c := range ev.Pkt.dec.Chunks {
						if c.Typ == wIDATA {
							m.Failf("kind.data", "the client frames its data as I-DATA towards a peer whose INIT ACK did not offer it")
						}
					}
				}
			}
			m.Observe("il=%v", md.MessageInterleavingEnabled)
			c03Teardown(m, p)
		},
		Final: func(m *Sim, x *Exec) { generalVerdicts(m, x, false) },
	}
}
