// Package vsync replaces "sync" in the overlay build of pion/sctp (import lines only are
// rewritten; the package name stays sync).  With no scheduler active every type behaves
// exactly like its sync counterpart; under vsched the acquiring operations become
// scheduling points and lock ownership is tracked by the scheduler.
package sync

import (
	"sync"
	"sync/atomic"

	"github.com/pion/sctp/internal/vsched"
)

type (
	Locker    = sync.Locker
	Cond      = sync.Cond
	WaitGroup = sync.WaitGroup
	Map       = sync.Map
	Pool      = sync.Pool
)

func NewCond(l Locker) *Cond { return sync.NewCond(l) }

func OnceFunc(f func()) func()                                 { return sync.OnceFunc(f) }
func OnceValue[T any](f func() T) func() T                     { return sync.OnceValue(f) }
func OnceValues[T1, T2 any](f func() (T1, T2)) func() (T1, T2) { return sync.OnceValues(f) }

// Mutex mirrors sync.Mutex.
type Mutex struct {
	st   vsched.LockState // must stay first: its address names the lock
	real sync.Mutex
}

func (m *Mutex) Lock() {
	if s := vsched.Active(); s != nil {
		s.Lock(&m.st)
		return
	}
	m.real.Lock()
}

func (m *Mutex) TryLock() bool {
	if s := vsched.Active(); s != nil {
		return s.TryLock(&m.st)
	}
	return m.real.TryLock()
}

func (m *Mutex) Unlock() {
	if s := vsched.Active(); s != nil {
		s.Unlock(&m.st)
		return
	}
	m.real.Unlock()
}

// RWMutex mirrors sync.RWMutex.
type RWMutex struct {
	st   vsched.LockState
	real sync.RWMutex
}

func (m *RWMutex) Lock() {
	if s := vsched.Active(); s != nil {
		s.Lock(&m.st)
		return
	}
	m.real.Lock()
}

func (m *RWMutex) TryLock() bool {
	if s := vsched.Active(); s != nil {
		return s.TryLock(&m.st)
	}
	return m.real.TryLock()
}

func (m *RWMutex) Unlock() {
	if s := vsched.Active(); s != nil {
		s.Unlock(&m.st)
		return
	}
	m.real.Unlock()
}

func (m *RWMutex) RLock() {
	if s := vsched.Active(); s != nil {
		s.RLock(&m.st)
		return
	}
	m.real.RLock()
}

func (m *RWMutex) TryRLock() bool {
	if s := vsched.Active(); s != nil {
		return s.TryRLock(&m.st)
	}
	return m.real.TryRLock()
}

func (m *RWMutex) RUnlock() {
	if s := vsched.Active(); s != nil {
		s.RUnlock(&m.st)
		return
	}
	m.real.RUnlock()
}

type rlocker RWMutex

func (r *rlocker) Lock()   { (*RWMutex)(r).RLock() }
func (r *rlocker) Unlock() { (*RWMutex)(r).RUnlock() }

func (m *RWMutex) RLocker() Locker { return (*rlocker)(m) }

// Once mirrors sync.Once (same algorithm, on the shim Mutex).
type Once struct {
	done atomic.Uint32
	m    Mutex
}

func (o *Once) Do(f func()) {
	if o.done.Load() == 0 {
		o.doSlow(f)
	}
}

func (o *Once) doSlow(f func()) {
	o.m.Lock()
	defer o.m.Unlock()
	if o.done.Load() == 0 {
		defer o.done.Store(1)
		f()
	}
}
