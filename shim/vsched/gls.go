package vsched

import (
	"runtime"
	"strconv"
	"unsafe"
)

// Goroutine-local storage: the per-goroutine profiler-label slot of the runtime (the worker
// never profiles with labels).  The two accessors are pulled from package runtime by
// linkname; the worker binary is linked with -checklinkname=0.  If that ever stops working
// the scheduler falls back to parsing the goroutine id out of runtime.Stack (2 us).

//go:linkname runtimeGetProfLabel runtime/pprof.runtime_getProfLabel
func runtimeGetProfLabel() unsafe.Pointer

//go:linkname runtimeSetProfLabel runtime/pprof.runtime_setProfLabel
func runtimeSetProfLabel(labels unsafe.Pointer)

func setGLS(t *Thread) { runtimeSetProfLabel(unsafe.Pointer(t)) }
func getGLS() *Thread  { return (*Thread)(runtimeGetProfLabel()) }

func goid() uint64 {
	var buf [64]byte
	n := runtime.Stack(buf[:], false)
	b := buf[10:n]
	i := 0
	for i < len(b) && b[i] >= '0' && b[i] <= '9' {
		i++
	}
	id, _ := strconv.ParseUint(string(b[:i]), 10, 64)
	return id
}
