// Package vsched is the controlled scheduler ("cosched") used to model check
// pion/sctp.  It is injected into the sctp module as a virtual package by
// /verif/tools/mkoverlay; nothing here is part of pion/sctp.
//
// One execution = one testing/synctest bubble.  The bubble's root goroutine is the
// scheduler S.  Every other goroutine ("thread") parks on a private gate before each
// hooked operation (lock acquisition, conn read/write, explicit yield) and S opens one
// gate at a time, after synctest.Wait() has established that every goroutine of the
// bubble is durably blocked.  Choices (which thread, which environment action) are taken
// from a prefix and default to 0 afterwards; the explorer enumerates prefixes.
package vsched

import (
	"cmp"
	"fmt"
	"runtime"
	"slices"
	"sort"
	"strings"
	"sync"
	"sync/atomic"
	"testing/synctest"
	"time"
	"unsafe"
)

// Category of a menu entry: what it costs to choose it instead of entry 0.
type Category uint8

const (
	CatDefault Category = iota // the canonical choice, free
	CatSched                   // a departure from the canonical thread schedule
	CatFault                   // a network / environment fault
)

// OpKind names the hooked operation a thread is parked at.
type OpKind uint8

const (
	OpStart OpKind = iota
	OpYield
	OpLock
	OpRLock
	OpRead
	OpWrite
	OpJoin
	OpConn
	OpAtomic
	OpOnce
)

func (k OpKind) String() string {
	return [...]string{"start", "yield", "lock", "rlock", "read", "write", "join", "conn", "atomic", "once"}[k]
}

// Thread is one goroutine known to the scheduler.
type Thread struct {
	ID        int
	Name      string
	Role      string
	gate      chan struct{}
	goid      uint64
	pending   *pendingOp
	Done      bool
	harness   bool
	Points    int
	held      []*LockState // write-held locks, in acquisition order
	rheld     []*LockState
	named     bool
	urgent    bool
	suspended bool
	sched     *Sched
}

type pendingOp struct {
	idle    bool // enabled only when nothing else can run and the environment is quiet
	kind    OpKind
	obj     string
	enabled func() bool
	onGrant func(t *Thread)
}

// Action is one entry of the menu offered at a decision.
type Action struct {
	Sig string   // stable signature used for divergence detection
	Cat Category // cost category when chosen as a non-default
	Run func()   // executes the action (open a gate, deliver a packet, ...)
	th  *Thread
}

// Env supplies environment actions (the network) and is consulted at every decision.
type Env interface {
	// Actions returns the environment actions available now, in canonical order.
	// threadsEnabled tells whether some thread could run instead.
	Actions(threadsEnabled bool) []Action
	// NextWake returns the next instant at which the environment will have something
	// to offer (zero Time if never).
	NextWake() time.Time
}

// Step records one decision.
type Step struct {
	N      int    // menu length
	Chosen int    // index taken
	Sig    string // signature of the chosen action
	Cats   []Category
	Sigs   []string // signatures of all entries (only kept when Record is set)
}

// Outcome of a run.
type Outcome struct {
	Steps       []Step
	Deadlock    bool
	DeadlockMsg string
	Horizon     bool // stopped because the horizon (virtual time or point budget) was hit
	Diverged    bool
	DivergeMsg  string
	IdentityTie bool
	Panics      []string
	LockOrder   map[string]bool // "a<b" edges observed (lock classes)
	Recursive   []string
	MaxPoints   int
}

// Sched is the scheduler of one execution.
type Sched struct {
	mu       sync.Mutex // real mutex protecting the bookkeeping below
	threads  []*Thread
	byGoid   map[uint64]*Thread
	arrivals []*Thread
	roleCnt  map[string]int
	wake     chan struct{}
	current  *Thread
	env      Env
	prefix   []int
	sigs     []string // expected signatures for the prefix (optional)
	out      Outcome
	timerSeq int
	timerFir map[int]int
	timers   map[int]*time.Timer
	start    time.Time
	horizon  time.Duration
	maxSteps int
	stopped  bool
	KeepSigs bool
	OnStep   func(step int, a *Action)
	// SuspendTimers offers, as a schedule deviation, to postpone a timer callback that has
	// just started until the next packet delivery has been processed ("slow timer goroutine").
	SuspendTimers bool
	// SuspendTimersLate offers the same postponement also at the callback's second scheduling
	// point: the timer has already decided that it expired (its own mutex taken and released)
	// and is about to take the lock of the object it reports to.
	SuspendTimersLate bool
	// YieldAfterUnlock makes the release of an exclusive lock a scheduling point as well.
	YieldAfterUnlock bool
	// YieldAfterSelect makes the moment a select statement of the library has fired (a channel
	// operation completed, the clause body not yet begun) a scheduling point: what the woken
	// goroutine does with state it reads next is ordered against the other threads.
	YieldAfterSelect bool
	envSinceSuspend  int
	// AtomicsArePoints makes the vatomic shim (if linked) yield at atomics.
	AtomicsArePoints bool
}

var active atomic.Pointer[Sched]

// Active returns the scheduler of the running execution, or nil.
func Active() *Sched { return active.Load() }

// Config for a run.
type Config struct {
	Prefix   []int
	Sigs     []string
	Horizon  time.Duration // virtual time budget
	MaxSteps int
	Env      Env
	KeepSigs bool
}

// Run executes body as harness thread "main" under a fresh scheduler.  It must be
// called from the root goroutine of a synctest bubble.
func Run(cfg Config, body func(s *Sched), setup func(s *Sched)) *Outcome {
	s := &Sched{
		byGoid:   map[uint64]*Thread{},
		roleCnt:  map[string]int{},
		wake:     make(chan struct{}, 1),
		env:      cfg.Env,
		prefix:   cfg.Prefix,
		sigs:     cfg.Sigs,
		timerFir: map[int]int{},
		start:    time.Now(),
		horizon:  cfg.Horizon,
		maxSteps: cfg.MaxSteps,
		KeepSigs: cfg.KeepSigs,
	}
	s.out.LockOrder = map[string]bool{}
	if s.horizon == 0 {
		s.horizon = 10 * time.Minute
	}
	if s.maxSteps == 0 {
		s.maxSteps = 200000
	}
	if !active.CompareAndSwap(nil, s) {
		panic("vsched: nested Run")
	}
	defer active.Store(nil)
	if setup != nil {
		setup(s)
	}
	s.Go("main", func() { body(s) })
	s.loop()
	return &s.out
}

// SetEnv installs the environment after construction (the wire needs the scheduler).
func (s *Sched) SetEnv(e Env) { s.env = e }

// Now returns virtual time since the start of the run.
func (s *Sched) Now() time.Duration { return time.Since(s.start) }

// Go starts a named harness thread; it is gated from its first instruction.
func (s *Sched) Go(name string, f func()) *Thread {
	t := &Thread{Name: name, Role: "h:" + name, gate: make(chan struct{}, 1), harness: true, named: true, sched: s}
	s.mu.Lock()
	t.ID = len(s.threads)
	s.threads = append(s.threads, t)
	s.mu.Unlock()
	go func() {
		setGLS(t)
		defer s.exit(t)
		s.park(t, &pendingOp{kind: OpStart, obj: name})
		f()
	}()
	return t
}

func (s *Sched) exit(t *Thread) {
	if r := recover(); r != nil {
		buf := make([]byte, 16384)
		n := runtime.Stack(buf, false)
		s.mu.Lock()
		s.out.Panics = append(s.out.Panics, fmt.Sprintf("thread %s: %v\n%s", t.Name, r, buf[:n]))
		s.mu.Unlock()
	}
	s.mu.Lock()
	t.Done = true
	delete(s.byGoid, t.goid)
	s.mu.Unlock()
	s.poke()
}

// EnterGo is called (by the overlay) as the first statement of every goroutine the package
// starts: goroutines inherit the creator's label slot, which must not be mistaken for their own.
func EnterGo() {
	if t := getGLS(); t != nil {
		setGLS(nil)
	}
}

// RecoverGo is deferred (by the overlay) at the top of every goroutine the package starts: a
// panic is recorded as a verdict of the execution instead of killing the worker process.
func RecoverGo() {
	r := recover()
	if r == nil {
		return
	}
	s := Active()
	if s == nil {
		panic(r)
	}
	buf := make([]byte, 16384)
	n := runtime.Stack(buf, false)
	s.mu.Lock()
	s.out.Panics = append(s.out.Panics, fmt.Sprintf("goroutine %s: %v\n%s", role(), r, buf[:n]))
	s.mu.Unlock()
	s.poke()
}

// Poke wakes the scheduler if it is waiting for virtual time to pass.
func (s *Sched) Poke() { s.poke() }

func (s *Sched) poke() {
	select {
	case s.wake <- struct{}{}:
	default:
	}
}

// EnterTimer names the calling goroutine as the callback of timer seq (vtime.AfterFunc).
func (s *Sched) EnterTimer(seq int) func() {
	s.mu.Lock()
	n := s.timerFir[seq]
	s.timerFir[seq] = n + 1
	t := &Thread{Name: fmt.Sprintf("timer%d.%d", seq, n), Role: "timer", gate: make(chan struct{}, 1), named: true, sched: s}
	t.ID = len(s.threads)
	s.threads = append(s.threads, t)
	s.mu.Unlock()
	setGLS(t)
	return func() {
		s.mu.Lock()
		t.Done = true
		s.mu.Unlock()
		setGLS(nil)
		s.poke()
	}
}

// RegisterTimer remembers an AfterFunc timer so that timers still armed at the end of an
// execution can be reported.
func (s *Sched) RegisterTimer(seq int, t *time.Timer) {
	s.mu.Lock()
	if s.timers == nil {
		s.timers = map[int]*time.Timer{}
	}
	s.timers[seq] = t
	s.mu.Unlock()
}

// StopArmedTimers stops every registered timer and returns the creation numbers of those
// that were still armed.
func (s *Sched) StopArmedTimers() []int {
	s.mu.Lock()
	defer s.mu.Unlock()
	var armed []int
	for seq, t := range s.timers {
		if t.Stop() {
			armed = append(armed, seq)
		}
	}
	sort.Ints(armed)
	return armed
}

// TimerFirings returns the total number of AfterFunc callbacks started so far.
func (s *Sched) TimerFirings() int {
	s.mu.Lock()
	defer s.mu.Unlock()
	n := 0
	for _, c := range s.timerFir {
		n += c
	}
	return n
}

// NewTimerSeq allocates a creation sequence number for an AfterFunc timer.
func (s *Sched) NewTimerSeq() int {
	s.mu.Lock()
	defer s.mu.Unlock()
	s.timerSeq++
	return s.timerSeq
}

func (s *Sched) cur() *Thread {
	if t := getGLS(); t != nil && t.sched == s {
		return t
	}
	// first hooked operation of a goroutine the scheduler has not seen yet
	g := goid()
	s.mu.Lock()
	t := s.byGoid[g]
	if t == nil {
		t = &Thread{gate: make(chan struct{}, 1), goid: g, Role: role(), sched: s}
		s.byGoid[g] = t
		s.arrivals = append(s.arrivals, t)
	}
	s.mu.Unlock()
	setGLS(t)
	return t
}

// Cur returns the calling thread (registering it if new).
func (s *Sched) Cur() *Thread { return s.cur() }

// Point parks the calling goroutine until the scheduler grants the operation.
func (s *Sched) Point(kind OpKind, obj string, enabled func() bool, onGrant func(t *Thread)) {
	t := s.cur()
	s.park(t, &pendingOp{kind: kind, obj: obj, enabled: enabled, onGrant: onGrant})
}

// SetUrgent makes t the first choice of the canonical schedule whenever it is enabled
// (used to inject an event at an exact scheduling step).
func (s *Sched) SetUrgent(t *Thread, on bool) {
	s.mu.Lock()
	t.urgent = on
	s.mu.Unlock()
}

// Steps returns the number of decisions taken so far.
func (s *Sched) Steps() int { return len(s.out.Steps) }

// Yield is an always-enabled point.
func (s *Sched) Yield() { s.Point(OpYield, "", nil, nil) }

// WaitIdle parks the calling thread until no other thread is enabled and the environment
// has nothing in flight (pending timers do not count).
func (s *Sched) WaitIdle() {
	t := s.cur()
	s.park(t, &pendingOp{kind: OpJoin, obj: "idle", idle: true})
}

// Join blocks until t has finished.
func (s *Sched) Join(t *Thread) {
	s.Point(OpJoin, t.Name, func() bool { return t.Done }, nil)
}

func (s *Sched) park(t *Thread, op *pendingOp) {
	s.mu.Lock()
	if s.stopped {
		s.mu.Unlock()
		// execution is being torn down: block forever (durably) so the bubble can be abandoned
		select {}
	}
	t.pending = op
	t.Points++
	s.mu.Unlock()
	s.poke()
	<-t.gate
}

func (s *Sched) enabledThreads() []*Thread {
	var en []*Thread
	for _, t := range s.threads {
		if t.Done || t.pending == nil || t.pending.idle || t.suspended {
			continue
		}
		if t.pending.enabled == nil || t.pending.enabled() {
			en = append(en, t)
		}
	}
	if len(en) == 0 && (s.env == nil || (s.env.NextWake().IsZero() && len(s.env.Actions(false)) == 0)) {
		for _, t := range s.threads {
			if !t.Done && t.pending != nil && t.pending.idle {
				en = append(en, t)
			}
		}
	}
	// canonical order must not depend on the order in which goroutines registered
	// (two timers firing in the same instant register in runtime order): sort by name
	sort.SliceStable(en, func(i, j int) bool { return en[i].Name < en[j].Name })
	return en
}

func (s *Sched) nameArrivals() {
	if len(s.arrivals) == 0 {
		return
	}
	arr := s.arrivals
	s.arrivals = nil
	sort.SliceStable(arr, func(i, j int) bool { return arr[i].Role < arr[j].Role })
	for i, t := range arr {
		if i > 0 && arr[i-1].Role == t.Role {
			s.out.IdentityTie = true
		}
		n := s.roleCnt[t.Role]
		s.roleCnt[t.Role] = n + 1
		t.Name = fmt.Sprintf("%s#%d", t.Role, n)
		t.named = true
		t.ID = len(s.threads)
		s.threads = append(s.threads, t)
	}
}

func (s *Sched) loop() {
	defer func() {
		s.mu.Lock()
		s.stopped = true
		s.mu.Unlock()
	}()
	stepNo := 0
	for {
		synctest.Wait()
		if stepNo >= s.maxSteps {
			// step budget exhausted; checked here, where every thread is parked: returning
			// right after a grant would let the granted thread run on without a scheduler
			s.out.Horizon = true
			return
		}
		s.mu.Lock()
		s.nameArrivals()
		// drop threads whose goroutine finished without telling us (sctp goroutines)
		en := s.enabledThreads()
		anyLive := false
		for _, t := range s.threads {
			if !t.Done && t.pending != nil {
				anyLive = true
			}
			if t.Points > s.out.MaxPoints {
				s.out.MaxPoints = t.Points
			}
		}
		s.mu.Unlock()

		// canonical order: the running thread first if still enabled, then ascending id
		var menu []Action
		var first *Thread
		for _, t := range en {
			if t.urgent {
				first = t
				break
			}
		}
		if first == nil && s.current != nil {
			for _, t := range en {
				if t == s.current {
					first = t
				}
			}
		}
		if first != nil {
			menu = append(menu, s.threadAction(first, CatDefault))
		}
		for _, t := range en {
			if t == first {
				continue
			}
			c := CatSched
			if len(menu) == 0 {
				c = CatDefault
			}
			menu = append(menu, s.threadAction(t, c))
		}
		if s.SuspendTimers {
			for _, t := range en {
				if t.Role == "timer" && (t.Points == 1 || (s.SuspendTimersLate && t.Points == 2)) {
					tt := t
					menu = append(menu, Action{Sig: "suspend:" + t.Name, Cat: CatSched, Run: func() {
						s.mu.Lock()
						tt.suspended = true
						s.envSinceSuspend = 0
						s.mu.Unlock()
					}})
				}
			}
		}
		if s.env != nil {
			for _, a := range s.env.Actions(len(en) > 0) {
				if len(menu) == 0 {
					a.Cat = CatDefault
				}
				menu = append(menu, a)
			}
		}
		if len(menu) == 0 && s.resumeSuspended() {
			continue
		}
		if len(menu) == 0 {
			// nothing can run now: let virtual time pass, or stop
			if s.mainDone() && !anyLive && (s.env == nil || s.env.NextWake().IsZero()) {
				// all harness threads finished, no thread parked, network idle: let leftover
				// timers (time.After in Abort etc.) drain for a bounded virtual time
				if !s.sleepUntilWake(2 * time.Second) {
					return
				}
				continue
			}
			left := s.horizon - time.Since(s.start)
			if left <= 0 {
				s.out.Horizon = true
				return
			}
			d := left
			if s.env != nil {
				if w := s.env.NextWake(); !w.IsZero() {
					if dd := time.Until(w); dd < d {
						d = dd
					}
				}
			}
			if d < 0 {
				d = 0
			}
			if !s.sleepUntilWake(d) && time.Since(s.start) >= s.horizon {
				// horizon reached with threads still blocked
				if anyLive {
					s.out.Deadlock = true
					s.out.DeadlockMsg = s.describeBlocked()
				}
				s.out.Horizon = true
				return
			}
			continue
		}
		choice := 0
		if stepNo < len(s.prefix) {
			choice = s.prefix[stepNo]
			if choice >= len(menu) {
				s.out.Diverged = true
				s.out.DivergeMsg = fmt.Sprintf("step %d: choice %d out of range (menu %d)", stepNo, choice, len(menu))
				return
			}
			if stepNo < len(s.sigs) && s.sigs[stepNo] != "" && s.sigs[stepNo] != menu[choice].Sig {
				s.out.Diverged = true
				s.out.DivergeMsg = fmt.Sprintf("step %d: expected %q got %q", stepNo, s.sigs[stepNo], menu[choice].Sig)
				return
			}
		}
		st := Step{N: len(menu), Chosen: choice, Sig: menu[choice].Sig}
		if len(menu) > 1 {
			st.Cats = make([]Category, len(menu))
			for i := range menu {
				st.Cats[i] = menu[i].Cat
			}
			if s.KeepSigs {
				st.Sigs = make([]string, len(menu))
				for i := range menu {
					st.Sigs[i] = menu[i].Sig
				}
			}
		}
		s.out.Steps = append(s.out.Steps, st)
		a := menu[choice]
		if s.OnStep != nil {
			s.OnStep(stepNo, &a)
		}
		stepNo++
		if a.th != nil {
			s.current = a.th
		} else if strings.HasPrefix(a.Sig, "net:") {
			s.envSinceSuspend++
		}
		a.Run()
	}
}

// resumeSuspended un-suspends postponed timer callbacks once a packet delivery has been
// processed since they were suspended, or when nothing else can ever happen.
func (s *Sched) resumeSuspended() bool {
	s.mu.Lock()
	defer s.mu.Unlock()
	any := false
	for _, t := range s.threads {
		if t.suspended && !t.Done {
			any = true
		}
	}
	if !any {
		return false
	}
	if s.envSinceSuspend == 0 && s.env != nil && !s.env.NextWake().IsZero() {
		return false // let time pass to the next delivery first
	}
	for _, t := range s.threads {
		t.suspended = false
	}
	return true
}

func (s *Sched) mainDone() bool {
	s.mu.Lock()
	defer s.mu.Unlock()
	for _, t := range s.threads {
		if t.harness && !t.Done {
			return false
		}
	}
	return true
}

// sleepUntilWake durably blocks the scheduler for at most d of virtual time; returns true
// if it was woken by a thread reaching a point (or finishing) rather than by the timeout.
func (s *Sched) sleepUntilWake(d time.Duration) bool {
	// drain stale pokes first: they were sent before the last Wait()
	select {
	case <-s.wake:
	default:
	}
	if d <= 0 {
		return false
	}
	tm := time.NewTimer(d)
	defer tm.Stop()
	select {
	case <-s.wake:
		return true
	case <-tm.C:
		return false
	}
}

func (s *Sched) threadAction(t *Thread, c Category) Action {
	op := t.pending
	return Action{
		Sig: t.Name + ":" + op.kind.String(),
		Cat: c,
		th:  t,
		Run: func() {
			s.mu.Lock()
			t.pending = nil
			if op.onGrant != nil {
				op.onGrant(t)
			}
			s.mu.Unlock()
			t.gate <- struct{}{}
		},
	}
}

func (s *Sched) describeBlocked() string {
	var b strings.Builder
	s.mu.Lock()
	defer s.mu.Unlock()
	for _, t := range s.threads {
		if t.Done {
			continue
		}
		if t.pending != nil {
			fmt.Fprintf(&b, "%s parked at %s(%s) holding %d locks; ", t.Name, t.pending.kind, t.pending.obj, len(t.held))
		} else if t.harness {
			fmt.Fprintf(&b, "%s blocked inside a call; ", t.Name)
		}
	}
	return b.String()
}

// Blocked returns the names of harness threads that have not finished.
func (s *Sched) Blocked() []string {
	s.mu.Lock()
	defer s.mu.Unlock()
	var r []string
	for _, t := range s.threads {
		if t.harness && !t.Done {
			r = append(r, t.Name)
		}
	}
	return r
}

// ---------------------------------------------------------------------------------
// Lock state shared with the vsync shim.

// LockState is the scheduler-owned state of one Mutex/RWMutex.
type LockState struct {
	writer  *Thread
	readers int
	rset    map[*Thread]int
	Class   string // set lazily: creation site class used for the lock-order graph
}

// Lock acquires l exclusively on behalf of the calling goroutine (a point).
func (s *Sched) Lock(l *LockState) {
	cls := classify(l)
	s.Point(OpLock, cls, func() bool { return l.writer == nil && l.readers == 0 }, func(t *Thread) {
		l.writer = t
		s.noteOrder(t, l)
		t.held = append(t.held, l)
	})
}

// TryLock tries to acquire l without blocking (not a point).
func (s *Sched) TryLock(l *LockState) bool {
	t := s.cur()
	s.mu.Lock()
	defer s.mu.Unlock()
	classify(l)
	if l.writer != nil || l.readers != 0 {
		return false
	}
	l.writer = t
	t.held = append(t.held, l)
	return true
}

// Unlock releases an exclusive hold.
func (s *Sched) Unlock(l *LockState) {
	s.mu.Lock()
	t := l.writer
	if t == nil {
		s.mu.Unlock()
		panic("vsync: unlock of unlocked mutex")
	}
	l.writer = nil
	for i := len(t.held) - 1; i >= 0; i-- {
		if t.held[i] == l {
			t.held = append(t.held[:i], t.held[i+1:]...)
			break
		}
	}
	yield := s.YieldAfterUnlock
	s.mu.Unlock()
	if yield {
		// a preemption right after a critical section (before whatever the thread does next
		// without a lock, e.g. reading a field it should have copied under the lock)
		s.Point(OpYield, "after-unlock", nil, nil)
	}
}

// RLock acquires l shared (a point).
func (s *Sched) RLock(l *LockState) {
	cls := classify(l)
	s.Point(OpRLock, cls, func() bool { return l.writer == nil }, func(t *Thread) {
		l.readers++
		if l.rset == nil {
			l.rset = map[*Thread]int{}
		}
		if l.rset[t] > 0 {
			s.out.Recursive = append(s.out.Recursive, classOf(l))
		}
		l.rset[t]++
		s.noteOrder(t, l)
		t.rheld = append(t.rheld, l)
	})
}

// TryRLock tries to acquire l shared without blocking.
func (s *Sched) TryRLock(l *LockState) bool {
	t := s.cur()
	s.mu.Lock()
	defer s.mu.Unlock()
	classify(l)
	if l.writer != nil {
		return false
	}
	l.readers++
	if l.rset == nil {
		l.rset = map[*Thread]int{}
	}
	l.rset[t]++
	t.rheld = append(t.rheld, l)
	return true
}

// RUnlock releases a shared hold.
func (s *Sched) RUnlock(l *LockState) {
	t := s.cur()
	s.mu.Lock()
	if l.readers <= 0 {
		s.mu.Unlock()
		panic("vsync: RUnlock of unlocked RWMutex")
	}
	l.readers--
	if l.rset[t] > 0 {
		l.rset[t]--
	}
	for i := len(t.rheld) - 1; i >= 0; i-- {
		if t.rheld[i] == l {
			t.rheld = append(t.rheld[:i], t.rheld[i+1:]...)
			break
		}
	}
	s.mu.Unlock()
}

func (s *Sched) noteOrder(t *Thread, l *LockState) {
	lc := classOf(l)
	if lc == "?" {
		return
	}
	for _, h := range t.held {
		if hc := classOf(h); h != l && hc != "?" {
			s.out.LockOrder[hc+"<"+lc] = true
		}
	}
	for _, h := range t.rheld {
		if hc := classOf(h); h != l && hc != "?" {
			s.out.LockOrder[hc+"<"+lc] = true
		}
	}
}

// HeldClasses returns the lock classes currently held (write or read) by the calling thread.
func (s *Sched) HeldClasses() []string {
	t := s.cur()
	s.mu.Lock()
	defer s.mu.Unlock()
	var r []string
	for _, h := range t.held {
		r = append(r, classOf(h))
	}
	for _, h := range t.rheld {
		r = append(r, "r:"+classOf(h))
	}
	return r
}

// ---------------------------------------------------------------------------------

// role returns the outermost non-runtime function of the calling goroutine.
func role() string {
	pcs := make([]uintptr, 64)
	n := runtime.Callers(2, pcs)
	frames := runtime.CallersFrames(pcs[:n])
	last := "?"
	for {
		f, more := frames.Next()
		if f.Function != "" && !strings.HasPrefix(f.Function, "runtime.") {
			last = f.Function
		}
		if !more {
			break
		}
	}
	if i := strings.LastIndex(last, "/"); i >= 0 {
		last = last[i+1:]
	}
	return last
}

// SortedKeys returns the keys of m in ascending order (used by the overlay's rewrite of
// range-over-map statements).
func SortedKeys[K cmp.Ordered, V any](m map[K]V) []K {
	keys := make([]K, 0, len(m))
	for k := range m {
		keys = append(keys, k)
	}
	slices.Sort(keys)
	return keys
}

// Namer, when set by the harness, maps the address of a shim lock to a class name
// ("assoc.lock", "stream.lock", ...).  Unknown locks get class "?" and are left out
// of the lock-order graph.
var Namer func(p unsafe.Pointer) string

// classMu guards LockState.Class: goroutines that have just been woken (channel hand-off,
// goroutine start) run concurrently until their first scheduling point and may name the same
// lock at the same time; an unguarded string assignment can be observed torn.
var classMu sync.Mutex

func classify(l *LockState) string {
	classMu.Lock()
	defer classMu.Unlock()
	if l.Class == "" || l.Class == "?" {
		l.Class = ClassOf(unsafe.Pointer(l))
	}
	return l.Class
}

func classOf(l *LockState) string {
	classMu.Lock()
	defer classMu.Unlock()
	return l.Class
}

// ClassOf names the lock at address p.
func ClassOf(p unsafe.Pointer) string {
	if Namer != nil {
		if c := Namer(p); c != "" {
			return c
		}
	}
	return "?"
}

// ---- diagnostic block coverage (mkoverlay -blockcov; tools/covreport.py) ----

var covHits [1 << 16]byte

// Cov marks block id as executed.
func Cov(id int) { covHits[id] = 1 }

// CovDump lists the blocks executed by this process.
func CovDump() []int {
	var out []int
	for i, h := range covHits {
		if h != 0 {
			out = append(out, i)
		}
	}
	return out
}


// AfterSelect is called at the start of every communication clause of the library's select
// statements (inserted by mkoverlay).
func AfterSelect() {
	s := Active()
	if s == nil || !s.YieldAfterSelect {
		return
	}
	s.Point(OpYield, "after-select", nil, nil)
}
