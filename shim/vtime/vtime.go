// Package vtime replaces "time" in the overlay build of pion/sctp.  Everything is the real
// package time (whose clock is the synctest bubble's fake clock); AfterFunc additionally
// registers the callback goroutine with the scheduler under a deterministic name.
package time

import (
	"time"

	"github.com/pion/sctp/internal/vsched"
)

type (
	Duration   = time.Duration
	Time       = time.Time
	Timer      = time.Timer
	Ticker     = time.Ticker
	Location   = time.Location
	Month      = time.Month
	Weekday    = time.Weekday
	ParseError = time.ParseError
)

const (
	Nanosecond  = time.Nanosecond
	Microsecond = time.Microsecond
	Millisecond = time.Millisecond
	Second      = time.Second
	Minute      = time.Minute
	Hour        = time.Hour

	Layout      = time.Layout
	ANSIC       = time.ANSIC
	UnixDate    = time.UnixDate
	RubyDate    = time.RubyDate
	RFC822      = time.RFC822
	RFC822Z     = time.RFC822Z
	RFC850      = time.RFC850
	RFC1123     = time.RFC1123
	RFC1123Z    = time.RFC1123Z
	RFC3339     = time.RFC3339
	RFC3339Nano = time.RFC3339Nano
	Kitchen     = time.Kitchen
	Stamp       = time.Stamp
	StampMilli  = time.StampMilli
	StampMicro  = time.StampMicro
	StampNano   = time.StampNano
	DateTime    = time.DateTime
	DateOnly    = time.DateOnly
	TimeOnly    = time.TimeOnly

	January   = time.January
	February  = time.February
	March     = time.March
	April     = time.April
	May       = time.May
	June      = time.June
	July      = time.July
	August    = time.August
	September = time.September
	October   = time.October
	November  = time.November
	December  = time.December

	Sunday    = time.Sunday
	Monday    = time.Monday
	Tuesday   = time.Tuesday
	Wednesday = time.Wednesday
	Thursday  = time.Thursday
	Friday    = time.Friday
	Saturday  = time.Saturday
)

var (
	UTC   = time.UTC
	Local = time.Local
)

func Now() Time                                   { return time.Now() }
func Since(t Time) Duration                       { return time.Since(t) }
func Until(t Time) Duration                       { return time.Until(t) }
func Sleep(d Duration)                            { time.Sleep(d) }
func After(d Duration) <-chan Time                { return time.After(d) }
func Tick(d Duration) <-chan Time                 { return time.Tick(d) }
func NewTimer(d Duration) *Timer                  { return time.NewTimer(d) }
func NewTicker(d Duration) *Ticker                { return time.NewTicker(d) }
func Unix(sec int64, nsec int64) Time             { return time.Unix(sec, nsec) }
func UnixMilli(msec int64) Time                   { return time.UnixMilli(msec) }
func UnixMicro(usec int64) Time                   { return time.UnixMicro(usec) }
func ParseDuration(s string) (Duration, error)    { return time.ParseDuration(s) }
func Parse(layout, value string) (Time, error)    { return time.Parse(layout, value) }
func FixedZone(name string, offset int) *Location { return time.FixedZone(name, offset) }
func LoadLocation(name string) (*Location, error) { return time.LoadLocation(name) }
func Date(year int, month Month, day, hour, min, sec, nsec int, loc *Location) Time {
	return time.Date(year, month, day, hour, min, sec, nsec, loc)
}

// AfterFunc is time.AfterFunc; under the scheduler the callback goroutine is given a
// deterministic identity (timer creation number, firing number) before f runs.
func AfterFunc(d Duration, f func()) *Timer {
	s := vsched.Active()
	if s == nil {
		return time.AfterFunc(d, f)
	}
	seq := s.NewTimerSeq()
	t := time.AfterFunc(d, func() {
		if s2 := vsched.Active(); s2 == s {
			done := s.EnterTimer(seq)
			defer done()
			defer vsched.RecoverGo()
		}
		f()
	})
	s.RegisterTimer(seq, t)
	return t
}
